#!/usr/bin/env python3
"""Regenerates MANIFEST.json (checks for every checks/cXX.py that exists)."""
import json, os
HERE = os.path.dirname(os.path.dirname(os.path.abspath(__file__)))
TECH = "deterministic simulation with fault injection"
NA = {
 "C01":"pure function of the parameters and the basis state (Born-rule identity); no schedule, clock, fault, interleaving or history for a simulator to control",
 "C02":"pure function of the parameters (Hermiticity/PSD/trace of rho); nothing to schedule or fail",
 "C03":"pure function of parameters, data and bases (gradient equals analytic NLL derivative); no history - its wiring into training is simulated under C06",
 "C04":"pure function of basis string, unitary dictionary and state (rotation equals Kronecker product); no schedule or fault surface",
 "C08":"pure function of the parameters evaluated without sampling (estimator unbiasedness over the exact distribution)",
 "C09":"pure function of parameters and region (swap estimator equals purity)",
 "C10":"pure functions of state, target and bases (fidelity/KL/NLL equal their definitions)",
 "C15":"pure tensor algebra (complex kernel agrees with complex arithmetic)",
 "C16":"pure function of an expression tree and a batch (composite observables)",
 "C19":"indexing conventions are pure functions; the loaders' only I/O is np.loadtxt(path), which offers no seam inside QuCumber - injected read faults would exercise numpy/CPython io, not the library",
}
CHECKS = {
 "C05": dict(
  text="seeded search over Bernoulli outcome streams and sampling histories: every draw of every chain is served by the simulator and refined, call by call, against the enumerated joint Boltzmann table (exact conditionals by marginalisation, no library formula); plus detailed balance/invariance of the kernel assembled from the public conditional methods w.r.t. the reported distribution, buffer/overwrite rules, and a Hoeffding-bounded law check (the only judge when the draw structure is not recognised). Sampling of histories, exhaustive only inside the oracle (all hidden/auxiliary configurations).",
  note="trusts numpy's enumeration of the Boltzmann table, the RNG seam's faithful emulation of torch.bernoulli(out=), tolerance 1e-9 per conditional / 1e-7 for the reported distribution",
  tech=TECH+" (seeded Bernoulli streams incl. forced rare outcomes, per-draw refinement against an enumerated reference model, statistical law check)"),
 "C06": dict(
  text="seeded search over training histories: shuffle and negative-phase chains are served by the simulator, a recording optimizer/scheduler (real torch objects) exposes every step; a reference trainer recomputes the expected contrastive-divergence gradient from the captured batch and the chain end state the seam served, checks every .grad slice, the SGD arithmetic, cumulative parameter refinement at every batch end and the optimizer/scheduler call schedule, with stop requests cutting histories short.",
  note="trusts the library's own gradient() for the per-sample positive phase of complex/mixed states (its mathematical correctness is C03, not claimed), closed-form numpy formulas for the negative phase, and the RNG seam",
  tech=TECH+" (seeded shuffles/chains/stop schedules, step-by-step refinement against a reference trainer)"),
 "C07": dict(
  text="seeded search over permutation / negative-index streams (honest, identity, reversal, transposition, all-equal), dataset shapes and stop schedules: conservation (multiset of (row, basis-row) pairs per epoch equals the caller's data), exactly-once, batch-size and ceil(N/bs) rules, negative-batch provenance, and bitwise immutability / storage disjointness of the caller's data checked at every event.",
  note="trusts the instance-level wrapper of the public per-batch method compute_batch_gradients as the observation point (falls back to inconclusive if it is bypassed)",
  tech=TECH+" (seeded shuffle streams with forced degenerate permutations, conservation/exactly-once oracle over the captured batch history)"),
 "C11": dict(
  text="seeded search over save/load histories on a simulated disk with write errors (ENOSPC/EIO at the k-th write), torn writes by process death and restart from surviving files: reference file-store model with bit-identity of every parameter and the unitary dictionary after load/autoload, side-effect freedom of save on model and metadata object, repeatability of saves, reserved-key refusal, durability of acknowledged saves.",
  note="trusts the SimDisk model (POSIX-like: truncate on open, non-atomic extending writes, process crash not power loss) and the real torch (de)serialiser running on it",
  tech=TECH+" (simulated disk with ENOSPC/EIO/torn-write/crash-restart faults, reference file-store model)"),
 "C12": dict(
  text="seeded search over stop schedules: every run is one training run with a stop request injected through a callback (any event, any list position) or asynchronously between two source lines of fit, judged by a reference model of the event protocol (grammar, completeness, bounded reaction S1-S5, persistence, parameter-change windows). Sampling, not enumeration: a clean batch is evidence, not proof.",
  note="trusts the witness callbacks' view of events (public callback API), sys.settrace line granularity for asynchronous requests, and the reference protocol model in qsim/models/protocol.py",
  tech=TECH+" (seeded stop/cancellation schedules at callback and source-line granularity, reference protocol model, ddmin + replay)"),
 "C13": dict(
  text="seeded search over (num_samples, num_chains, burn_in, steps, initial chains, overwrite, observable sets) with the sample stream captured at the public sample() seam: draw schedule, chain continuity and one-pass statistics of the concatenated stream vs. the reported streaming statistics; the pairwise merge fed with simulator-chosen chunkings.",
  note="trusts numpy one-pass mean/variance as reference and the instance-level wrapper of sample() as the observation point",
  tech=TECH+" (seeded chain streams and chunking schedules, one-pass reference statistics over the captured stream)"),
 "C14": dict(
  text="twin executions of the same seeded operation history, one undisturbed and one with every foreign source of nondeterminism perturbed (numpy/random reseeded and consumed at op boundaries, in callbacks and between source lines of fit, clock jumps, fresh interpreter under another PYTHONHASHSEED): bitwise digest equality per operation, seed sensitivity, and parameter digests around every read-only operation.",
  note="one intra-op thread, same machine, CPU; the torch generator runs for real in this check",
  tech=TECH+" (twin runs under perturbation schedules of foreign RNGs/clock/hash seed, bitwise digest comparison)"),
 "C17": dict(
  text="seeded search over epoch schedules of several periodic callbacks with different periods, stop requests, checkpoint and CSV I/O on the simulated disk, crash and restart: an independent witness record is compared with every accessor, the CSV log, and every checkpoint (name, content, metadata); durability of completed periods after a crash.",
  note="trusts the witness callback placed last in the list, call-recording metric/observable functions, SimDisk",
  tech=TECH+" (seeded periodic-task schedules, stop/crash/disk faults, witness-record oracle)"),
 "C18": dict(
  text="seeded search over scripted histories of the monitored quantity (monotone, oscillating, constant, with zeros), evaluator/stopper periods, patience, criteria, tolerances and callback order: the epoch at which training stops must equal the reference decision procedure's verdict on the same recorded history.",
  note="monitored metric is a scripted sensor (stub); zero-denominator relative checks are excluded as unspecified",
  tech=TECH+" (seeded value histories and periodic schedules, reference decision procedure)"),
 "C20": dict(
  text="seeded search over histories of construct (sizes / user module) -> train -> reinitialise with several optimizers and caller-side aliasing: identity/size/shape/zero-bias/disjoint-storage contracts, refusal of base-less training before any event, and the zero auxiliary phase bias monitored at every event.",
  note="trusts storage-pointer and perturbation tests for aliasing",
  tech=TECH+" (seeded construct/train/reinitialise histories with aliasing faults, invariant monitor at every event)"),
}
SECTION = {k: f"DESIGN.md section 6 / {k}" for k in CHECKS}
def main():
    m = {
     "version": 1,
     "setup_cmd": "./setup.sh",
     "hooks": {
      "guard": "QUCUMBER_VERIF",
      "enable": "no hook exists in /repo: every seam (torch.bernoulli/randn/randperm/randint, torch.save/load, module-global open/Path/time of the callback modules, sys.settrace on NeuralStateBase.fit, public callbacks=/optimizer=/scheduler= arguments) is installed from outside by /verif/qsim at run time; checks import qucumber from /repo's working tree via sys.path (QSIM_REPO overrides)",
      "baseline_off_cmd": "cd /repo && /venv/bin/python -m pytest -ra -q -p no:cacheprovider --timeout=900 --continue-on-collection-errors",
      "source_commits": [],
      "add_only": True,
     },
     "engines": [{"name":"qsim","path":"qsim/","serves_properties":sorted(CHECKS),"kind_free_text":"deterministic simulator: seeded plan generator, RNG/disk/clock/pre-emption seams installed from outside, reference models as oracles, ddmin minimiser, fresh-interpreter replay"}],
     "checks": [],
     "notes": "exit codes of ./check: 0 held (KNOWN-FINDING lines possible), 1 VIOLATION, 2 harness error (no verdict). VERIF_SEED selects the seed family. KNOWN_FINDINGS.json lists fixed/known defects.",
     "not_applicable": [{"property_id":k,"reason":v} for k,v in NA.items()],
    }
    for pid, c in sorted(CHECKS.items()):
        if not os.path.exists(os.path.join(HERE, "checks", pid.lower()+".py")):
            m["not_applicable"].append({"property_id": pid, "reason": "claimed in DESIGN.md; check not built yet (work in progress)"})
            continue
        m["checks"].append({
         "property_id": pid,
         "quick_cmd": f"./check {pid} --tier quick",
         "thorough_cmd": f"./check {pid} --tier thorough",
         "evidence_file": f"evidence/{pid}.json",
         "replay_cmd_template": f"./check {pid} --replay {{path}}",
         "engine": "qsim",
         "level_claimed": {"category":"exploration","text":c["text"],"design_ref":SECTION[pid]},
         "level_note": c["note"],
         "technique": c["tech"],
        })
    json.dump(m, open(os.path.join(HERE,"MANIFEST.json"),"w"), indent=1)
    print("checks:", [c["property_id"] for c in m["checks"]])
main()
