#!/venv/bin/python
"""Confirm and evaluate independently written seeded changes.

tools/seeded_eval.py confirm  <PROP> <X>   # from /tmp/seed/<PROP>-out/<X>: confirm in the scratch worktree, copy to /verif/seeded/
tools/seeded_eval.py run      [ID ...]     # run the owning check (quick) against every kept change in /verif/seeded/

A change is kept only after, in the scratch worktree /tmp/seed/<PROP>:
  - the demonstration passes on the clean tree,
  - the patch applies, the library imports, the pinned test suite still gives 245 passed,
  - the demonstration fails with the patch.
`run` copies /repo/qucumber to a scratch directory, applies the patch there and
runs `./check <PROP> --tier quick` with QSIM_REPO pointing at it (evidence and
replays go to the scratch directory), then removes it.
"""
import json
import os
import shutil
import subprocess
import sys
import tempfile
import time

VERIF = os.path.dirname(os.path.dirname(os.path.abspath(__file__)))
PY = "/venv/bin/python"


def sh(cmd, cwd=None, env=None, timeout=3600):
    p = subprocess.run(cmd, cwd=cwd, env=env, capture_output=True, text=True, timeout=timeout)
    return p.returncode, p.stdout + p.stderr


def confirm(prop, x, base="/tmp/seed", keep_as=None):
    wt = f"{base}/{prop}"
    src = f"{base}/{prop}-out/{x}"
    sh(["git", "checkout", "--", "."], cwd=wt)
    rc_clean, out_clean = sh([PY, "-B", f"{src}/demo.py", wt], cwd=src)
    rc_apply, out_apply = sh(["git", "apply", f"{src}/patch.diff"], cwd=wt)
    rc_t, out_t = sh([PY, "-m", "pytest", "-q", "-p", "no:cacheprovider", "--continue-on-collection-errors"], cwd=wt)
    tail = out_t.strip().splitlines()[-1] if out_t.strip() else ""
    rc_p, out_p = sh([PY, "-B", f"{src}/demo.py", wt], cwd=src)
    sh(["git", "checkout", "--", "."], cwd=wt)
    ok = rc_clean == 0 and rc_apply == 0 and "245 passed" in tail and rc_p != 0
    print(f"{prop}-{x}: clean demo exit {rc_clean}; apply {rc_apply}; tests: {tail}; patched demo exit {rc_p} -> {'CONFIRMED' if ok else 'REJECTED'}")
    if not ok:
        print(out_clean[-500:], out_apply[-500:], out_p[-500:])
        return False
    keep_as = keep_as or x
    dst = os.path.join(VERIF, "seeded", f"{prop}-{keep_as}")
    os.makedirs(dst, exist_ok=True)
    shutil.copy(f"{src}/patch.diff", dst)
    shutil.copy(f"{src}/demo.py", dst)
    meta = json.load(open(f"{src}/meta.json"))
    meta["id"] = f"{prop}-{keep_as}"
    meta["author"] = "independent sub-agent given only the property text and a scratch worktree"
    meta["confirmed_by_me"] = {
        "worktree": f"scratch git worktree of /repo HEAD under {base} (removed afterwards)",
        "demo_clean_exit": rc_clean,
        "patch_applies": rc_apply == 0,
        "tests_with_patch": tail,
        "demo_patched_exit": rc_p,
        "demo_patched_output": out_p.strip()[-400:],
    }
    json.dump(meta, open(os.path.join(dst, "meta.json"), "w"), indent=1)
    return True


def run(ids, tier="quick"):
    base = os.path.join(VERIF, "seeded")
    res = []
    for d in sorted(os.listdir(base)):
        if ids and d not in ids:
            continue
        meta_p = os.path.join(base, d, "meta.json")
        if not os.path.exists(meta_p):
            continue
        meta = json.load(open(meta_p))
        prop = meta["property"]
        scratch = tempfile.mkdtemp(prefix="qsim-seeded-")
        try:
            shutil.copytree("/repo/qucumber", os.path.join(scratch, "qucumber"))
            rc, out = sh(["git", "apply", "--unsafe-paths", f"--directory={scratch}", os.path.join(base, d, "patch.diff")], cwd="/")
            if rc != 0:
                rc, out = sh(["patch", "-p1", "-i", os.path.join(base, d, "patch.diff")], cwd=scratch)
            if rc != 0:
                print(f"{d}: patch does not apply to the current /repo: {out[-300:]}")
                res.append((d, "patch-failed"))
                continue
            env = dict(os.environ, QSIM_REPO=scratch, QSIM_EVIDENCE_DIR=os.path.join(scratch, "evidence"), QSIM_REPLAY_DIR=os.path.join(scratch, "replays"))
            checks = [prop] + [p for p in meta.get("also_run", [])]
            detected = {}
            for pr in checks:
                t0 = time.time()
                rc, out = sh([os.path.join(VERIF, "check"), pr, "--tier", tier], cwd=VERIF, env=env)
                rules = sorted({ln.strip().split(" runs=")[0].replace("rule=", "") for ln in out.splitlines() if ln.strip().startswith("rule=")})
                if rc == 1 and "VIOLATION property=" not in out:
                    rc = 2  # the checker itself failed to run: not a verdict
                detected[pr] = {"exit": rc, "rules": rules, "wall_s": round(time.time() - t0, 1)}
                print(f"{d}: ./check {pr} --tier {tier} -> exit {rc} {rules}")
                sys.stdout.flush()
            key = "my_checks" if os.environ.get("VERIF_SEED", "0") in ("", "0") else "my_checks_seed" + os.environ["VERIF_SEED"]
            meta[key] = {"tier": tier, "results": detected, "caught": any(v["exit"] == 1 for v in detected.values())}
            meta.setdefault("my_checks", meta[key])
            json.dump(meta, open(meta_p, "w"), indent=1)
            res.append((d, meta[key]["caught"]))
        finally:
            shutil.rmtree(scratch, ignore_errors=True)
    print(res)
    return 0


if __name__ == "__main__":
    if sys.argv[1] == "confirm":
        base = sys.argv[4] if len(sys.argv) > 4 else "/tmp/seed"
        keep_as = sys.argv[5] if len(sys.argv) > 5 else None
        sys.exit(0 if confirm(sys.argv[2], sys.argv[3], base, keep_as) else 1)
    elif sys.argv[1] == "run":
        tier = "quick"
        ids = [a for a in sys.argv[2:] if not a.startswith("--")]
        if "--thorough" in sys.argv:
            tier = "thorough"
        sys.exit(run(ids, tier))
