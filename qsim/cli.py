"""./check <ID> [--tier quick|thorough] [--replay FILE] [--runs N] [--budget S]"""
import argparse
import os
import sys

HERE = os.path.dirname(os.path.dirname(os.path.abspath(__file__)))
if HERE not in sys.path:
    sys.path.insert(0, HERE)


def main(argv=None):
    ap = argparse.ArgumentParser()
    ap.add_argument("prop")
    ap.add_argument("--tier", default=os.environ.get("VERIF_TIER", "quick"), choices=["quick", "thorough"])
    ap.add_argument("--replay")
    ap.add_argument("--runs", type=int)
    ap.add_argument("--budget", type=float)
    ap.add_argument("--digests", type=int, help="self-test: dump run digests of the first N seeds to --out")
    ap.add_argument("--out")
    ap.add_argument("--exec-indices", help="internal: execute these run indices in this interpreter, dump results to --out")
    ap.add_argument("--dump-log", type=int, help="self-test: print the full event log of run index I")
    a = ap.parse_args(argv)
    from qsim import runner

    prop = a.prop.upper()
    if a.replay:
        return runner.replay(prop, a.replay)
    seed = int(os.environ.get("VERIF_SEED", "0") or 0)
    if a.exec_indices:
        return runner.exec_indices(prop, a.tier, seed, [int(x) for x in a.exec_indices.split(",")], a.out)
    if a.digests:
        return runner.dump_digests(prop, a.tier, seed, a.digests, a.out)
    if a.dump_log is not None:
        for ln in runner.dump_log(prop, a.tier, seed, a.dump_log):
            print(ln)
        return 0
    return runner.run_batch(prop, a.tier, seed, runs=a.runs, budget_s=a.budget)


if __name__ == "__main__":
    try:
        code = main()
    except SystemExit:
        raise
    except BaseException:  # noqa: BLE001  a failure of the machinery itself is never exit code 1
        import traceback

        print("HARNESS-ERROR " + traceback.format_exc())
        code = 2
    sys.exit(code)
