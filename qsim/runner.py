"""Batch runner: seeds -> plans -> executions in spawned worker interpreters,
aggregation, minimisation, replay verification, evidence, exit code.

Exit codes: 0 held (possibly with KNOWN-FINDING lines); 1 at least one
VIOLATION line; 2 harness error (no verdict)."""
import copy
import faulthandler
import importlib
import json
import multiprocessing as mp
import os
import subprocess
import sys
import time
import traceback
from collections import Counter
from concurrent.futures import ProcessPoolExecutor, as_completed

from .core import VERIF_DIR, HarnessError, run_seed

REPO = os.environ.get("QSIM_REPO", "/repo")
NPROC = int(os.environ.get("QSIM_WORKERS", "16"))
REPLAY_DIR = os.environ.get("QSIM_REPLAY_DIR", os.path.join(VERIF_DIR, "replays"))
CHUNK_WALL_S = int(os.environ.get("QSIM_CHUNK_WALL_S", "900"))


def load_check(prop):
    return importlib.import_module(f"checks.{prop.lower()}")


# ---------------------------------------------------------------------------
# worker side
# ---------------------------------------------------------------------------
def worker_init(repo):
    os.environ["PYTHONDONTWRITEBYTECODE"] = "1"
    sys.dont_write_bytecode = True
    if repo not in sys.path:
        sys.path.insert(0, repo)
    if VERIF_DIR not in sys.path:
        sys.path.insert(1, VERIF_DIR)
    import torch

    torch.set_num_threads(1)
    import qucumber

    if not os.path.abspath(qucumber.__file__).startswith(os.path.abspath(repo) + os.sep):
        raise HarnessError(f"qucumber imported from {qucumber.__file__}, not from {repo}")
    import warnings

    warnings.filterwarnings("ignore")


RUN_WALL_S = int(os.environ.get("QSIM_RUN_WALL_S", "300"))
_POISONED = False


class RunTimeout(BaseException):
    """One simulated run exceeded its wall-clock limit (every plan is bounded and normally takes well under a
    second; the largest strata take a few seconds)."""


def _alarm(signum, frame):
    raise RunTimeout()


def execute_plan(prop, plan):
    """Run one plan; harness problems become {'harness_error': ...}."""
    import signal

    if _POISONED:
        return {"harness_error": "this worker interpreter was interrupted by a run that exceeded its wall limit; its state is no longer trusted (no verdict)", "violations": []}
    mod = load_check(prop)
    use_alarm = hasattr(signal, "setitimer") and __import__("threading").current_thread() is __import__("threading").main_thread()
    if use_alarm:
        old = signal.signal(signal.SIGALRM, _alarm)
        signal.setitimer(signal.ITIMER_REAL, RUN_WALL_S)
    try:
        return mod.execute(plan)
    except RunTimeout:
        globals()["_POISONED"] = True  # the interrupt may have hit anything (an import, a torch kernel wrapper ...)
        return {"harness_error": f"run did not finish within {RUN_WALL_S} s (no verdict); plan config: {json.dumps(plan.get('config'), default=str)[:600]}", "violations": []}
    except HarnessError as e:
        return {"harness_error": str(e), "violations": []}
    except Exception as e:  # noqa: BLE001  anything escaping execute() is ours
        return {
            "harness_error": "".join(traceback.format_exception(type(e), e, e.__traceback__)),
            "violations": [],
        }
    finally:
        if use_alarm:
            signal.setitimer(signal.ITIMER_REAL, 0)
            signal.signal(signal.SIGALRM, old)


def exec_chunk(prop, tier, verif_seed, idxs, want_trace):
    faulthandler.dump_traceback_later(CHUNK_WALL_S, exit=True)
    try:
        mod = load_check(prop)
        out = []
        for i in idxs:
            seed = run_seed(verif_seed, prop, tier, i)
            plan = mod.generate(seed, tier)
            res = execute_plan(prop, plan)
            if i not in want_trace:
                res.pop("trace", None)
            out.append((i, seed, res))
        return out
    finally:
        faulthandler.cancel_dump_traceback_later()


def _rules(res):
    return [v["rule"] for v in res.get("violations", [])]


def _ddmin(items, test, deadline):
    """Classic ddmin: smallest sublist for which test(sublist) is True."""
    n = 2
    items = list(items)
    while len(items) >= 1 and time.time() < deadline:
        if len(items) == 1:
            if test([]):
                return []
            return items
        size = max(1, len(items) // n)
        chunks = [items[i : i + size] for i in range(0, len(items), size)]
        reduced = False
        for c in range(len(chunks)):
            cand = [x for j, ch in enumerate(chunks) if j != c for x in ch]
            if time.time() >= deadline:
                return items
            if test(cand):
                items = cand
                n = max(n - 1, 2)
                reduced = True
                break
        if not reduced:
            if n >= len(items):
                break
            n = min(len(items), n * 2)
    return items


def minimise_task(prop, plan, rule, budget_s):
    """Shrink `plan` while a violation of class `rule` persists."""
    faulthandler.dump_traceback_later(CHUNK_WALL_S, exit=True)
    try:
        mod = load_check(prop)
        deadline = time.time() + budget_s
        tries = 0

        def fails(p):
            nonlocal tries
            tries += 1
            r = execute_plan(prop, p)
            return rule in _rules(r)

        best = copy.deepcopy(plan)
        if not fails(best):
            return {"plan": plan, "reproduced": False, "tries": tries}
        for key in ("faults", "ops"):
            if isinstance(best.get(key), list) and best[key]:

                def t(sub, key=key):
                    q = copy.deepcopy(best)
                    q[key] = sub
                    return fails(q)

                best[key] = _ddmin(best[key], t, deadline)
        shrink = getattr(mod, "shrink", None)
        if shrink is not None:
            progress = True
            while progress and time.time() < deadline:
                progress = False
                try:
                    cands = list(shrink(best))
                except Exception:  # noqa: BLE001  a bug in a shrinker must not lose the violation
                    cands = []
                for cand in cands:
                    if time.time() >= deadline:
                        break
                    if fails(cand):
                        best = cand
                        progress = True
                        break
        return {"plan": best, "reproduced": True, "tries": tries}
    finally:
        faulthandler.cancel_dump_traceback_later()


# ---------------------------------------------------------------------------
# known findings
# ---------------------------------------------------------------------------
def load_known():
    path = os.path.join(VERIF_DIR, "KNOWN_FINDINGS.json")
    if not os.path.exists(path):
        return []
    with open(path) as f:
        return json.load(f).get("findings", [])


def match_known(prop, viol, known):
    for k in known:
        if k.get("status") != "known" or k.get("property") != prop:
            continue
        if k.get("rule") != viol["rule"]:
            continue
        when = k.get("when", {})
        if all(viol.get("detail", {}).get(a) == b for a, b in when.items()):
            return k
    return None


# ---------------------------------------------------------------------------
# main side
# ---------------------------------------------------------------------------
class Batch:
    def __init__(self, prop, tier, verif_seed):
        self.prop = prop
        self.tier = tier
        self.verif_seed = verif_seed
        self.mod = load_check(prop)
        self.n = 0
        self.viol_runs = []  # (i, seed, violations)
        self.harness_errors = []
        self.traces = Counter()
        self.nontrivial_traces = set()
        self.faults = Counter()
        self.fault_sites = set()
        self.probes = Counter()
        self.sim = Counter()
        self.inconclusive = Counter()
        self.digests = {}
        self.sample_traces = {}
        self.recheck = {"rerun": 0, "mismatches": 0}

    def absorb(self, i, seed, res, recheck=False):
        if "harness_error" in res:
            self.harness_errors.append((i, seed, res["harness_error"]))
            return
        if recheck:
            self.recheck["rerun"] += 1
            if self.digests.get(i) != res["digest"]:
                self.recheck["mismatches"] += 1
            return
        self.n += 1
        self.digests[i] = res["digest"]
        self.traces[res["trace_key"]] += 1
        if res["nontrivial"]:
            self.nontrivial_traces.add(res["trace_key"])
        self.faults.update(res["faults"])
        self.fault_sites.update(res["fault_sites"])
        self.probes.update(res["probes"])
        self.sim.update(res["sim"])
        self.inconclusive.update(res["inconclusive"])
        if res["violations"]:
            self.viol_runs.append((i, seed, res["violations"]))
        if "trace" in res:
            self.sample_traces[i] = res["trace"]


def _pool():
    ctx = mp.get_context("spawn")
    return ProcessPoolExecutor(max_workers=NPROC, mp_context=ctx, initializer=worker_init, initargs=(REPO,))


def _submit_range(ex, batch, lo, hi, chunk, want_trace):
    futs = []
    for a in range(lo, hi, chunk):
        idxs = list(range(a, min(hi, a + chunk)))
        futs.append(ex.submit(exec_chunk, batch.prop, batch.tier, batch.verif_seed, idxs, want_trace))
    return futs


def _phase_run(ex, batch, tier, runs, budget_s, t0, want_trace, progress):
    mod = batch.mod
    if tier == "quick":
        total = runs or int(os.environ.get("QSIM_RUNS", mod.QUICK_RUNS))
        chunk = max(1, min(200, total // (NPROC * 4) or 1))
        progress["hi"] = total
        futs = _submit_range(ex, batch, 0, total, chunk, want_trace)
        for f in as_completed(futs, timeout=CHUNK_WALL_S * 2):
            for i, seed, res in f.result():
                batch.absorb(i, seed, res)
    else:
        budget = budget_s or float(os.environ.get("QSIM_BUDGET_S", "600"))
        wave = getattr(mod, "THOROUGH_WAVE", max(NPROC * 20, mod.QUICK_RUNS // 4))
        chunk = max(1, wave // (NPROC * 4))
        hi = 0
        cap = runs or 10 ** 9
        while time.time() - t0 < budget and hi < cap and len(batch.viol_runs) < 50:
            lo, hi = hi, min(cap, hi + wave)
            progress["hi"] = hi
            futs = _submit_range(ex, batch, lo, hi, chunk, want_trace)
            for f in as_completed(futs, timeout=CHUNK_WALL_S * 2):
                for i, seed, res in f.result():
                    batch.absorb(i, seed, res)
    hi = progress["hi"]
    # determinism re-check: re-run a sample of the seeds in other tasks
    frac = 0.05 if tier == "thorough" else 0.02
    nre = max(8, int(hi * frac))
    step = max(1, hi // nre)
    re_idx = list(range(0, hi, step))[:nre][:2000]
    futs = []
    rchunk = max(1, len(re_idx) // (NPROC * 2))
    for a in range(0, len(re_idx), rchunk):
        futs.append(ex.submit(exec_chunk, batch.prop, tier, batch.verif_seed, re_idx[a : a + rchunk][::-1], set()))
    for f in as_completed(futs, timeout=CHUNK_WALL_S * 2):
        for i, seed, res in f.result():
            batch.absorb(i, seed, res, recheck=True)


def _exec_range_subprocess(prop, tier, verif_seed, idxs):
    """Run some run indices in a separate interpreter; returns (returncode, results or None)."""
    import tempfile

    fd, out = tempfile.mkstemp(prefix="qsim-range-", suffix=".json")
    os.close(fd)
    try:
        env = dict(os.environ, VERIF_SEED=str(verif_seed), PYTHONDONTWRITEBYTECODE="1")
        p = subprocess.run(
            [sys.executable, "-B", os.path.join(VERIF_DIR, "qsim", "cli.py"), prop, "--tier", tier, "--exec-indices", ",".join(map(str, idxs)), "--out", out],
            env=env, cwd=VERIF_DIR, capture_output=True, text=True, timeout=min(CHUNK_WALL_S, RUN_WALL_S + 60 * max(1, len(idxs) // 8)),
        )
        if p.returncode == 0:
            with open(out) as f:
                return 0, json.load(f)
        return p.returncode, None
    except subprocess.TimeoutExpired:
        return "timeout", None
    finally:
        if os.path.exists(out):
            os.unlink(out)


def exec_indices(prop, tier, verif_seed, idxs, out_path):
    worker_init(REPO)
    res = exec_chunk(prop, tier, verif_seed, idxs, set())
    with open(out_path, "w") as f:
        json.dump(res, f, default=str)
    return 0


def crash_hunt(batch, pending):
    """A worker interpreter died (segfault, bus error, os._exit ...) while executing the code under
    test.  Re-run the unfinished run indices in separate interpreters, bisecting the groups that
    die, until the culprit runs are isolated.  Those are violations: the process under test crashed."""
    from concurrent.futures import ThreadPoolExecutor

    crashes = []
    groups = [pending[i : i + 64] for i in range(0, len(pending), 64)]

    def work(idxs):
        found = []
        stack = [idxs]
        while stack:
            g = stack.pop()
            rc, res = _exec_range_subprocess(batch.prop, batch.tier, batch.verif_seed, g)
            if rc == 0:
                found.append(("ok", res))
            elif len(g) == 1:
                found.append(("crash", (g[0], rc)))
            else:
                mid = len(g) // 2
                stack.append(g[mid:])
                stack.append(g[:mid])
        return found

    with ThreadPoolExecutor(max_workers=NPROC) as tp:
        for found in tp.map(work, groups):
            for kind, payload in found:
                if kind == "ok":
                    for i, seed, res in payload:
                        batch.absorb(i, seed, res)
                else:
                    crashes.append(payload)
    return crashes


def _minimise_isolated(batch, prop, plan, rule):
    """Minimise in a process of its own: a candidate sub-plan may kill the interpreter (the code under test
    crashing on it), which must cost the minimisation, not the verdict."""
    from concurrent.futures.process import BrokenProcessPool

    ctx = mp.get_context("spawn")
    try:
        with ProcessPoolExecutor(max_workers=1, mp_context=ctx, initializer=worker_init, initargs=(REPO,)) as ex1:
            return ex1.submit(minimise_task, prop, plan, rule, 60.0).result(timeout=CHUNK_WALL_S)
    except (BrokenProcessPool, TimeoutError):
        batch.probes["minimiser_process_died_unminimised_plan_reported"] += 1
        return {"plan": plan, "reproduced": None, "tries": 0}


def run_batch(prop, tier, verif_seed, runs=None, budget_s=None):
    from concurrent.futures.process import BrokenProcessPool

    t0 = time.time()
    batch = Batch(prop, tier, verif_seed)
    mod = batch.mod
    known = load_known()
    want_trace = {0, 1, 2}
    exit_code = 0
    lines = []
    crashes = []
    progress = {"hi": 0}
    try:
        try:
            with _pool() as ex:
                _phase_run(ex, batch, tier, runs, budget_s, t0, want_trace, progress)
        except BrokenProcessPool:
            pending = [i for i in range(progress["hi"]) if i not in batch.digests and i not in {e[0] for e in batch.harness_errors}]
            batch.probes["worker_died_runs_rerun_in_isolation"] += len(pending)
            crashes = crash_hunt(batch, pending)
        with _pool() as ex:
            # ---- violations: classify, minimise, replay ----------------------
            groups = {}
            for i, seed, viols in batch.viol_runs:
                for v in viols:
                    k = match_known(prop, v, known)
                    key = (v["rule"], k["id"] if k else None)
                    groups.setdefault(key, []).append((i, seed, v))
            os.makedirs(REPLAY_DIR, exist_ok=True)
            for (rule, kid), members in sorted(groups.items(), key=lambda kv: (kv[0][0], str(kv[0][1]))):
                if kid is not None:
                    kf = next(k for k in known if k["id"] == kid)
                    lines.append(f"KNOWN-FINDING: property={prop} {kf['what']} [{kid}; rule {rule}; {len(members)} runs]")
                    continue
                i, seed, v = members[0]
                plan = mod.generate(seed, tier)
                mres = _minimise_isolated(batch, prop, plan, rule)
                path = write_replay(prop, seed, tier, mres["plan"], rule, v, mres)
                ok = verify_replay(prop, path, rule)
                if not ok and mres["plan"] != plan:
                    # minimised plan does not reproduce in a fresh interpreter: fall back
                    path = write_replay(prop, seed, tier, plan, rule, v, {"reproduced": None, "tries": 0}, suffix="-full")
                    ok = verify_replay(prop, path, rule)
                    batch.probes["minimised_plan_not_reproducible"] += 1
                if not ok:
                    batch.probes["replay_not_reproducible"] += 1
                lines.append(f"VIOLATION property={prop} replay={path}")
                lines.append(f"  rule={rule} runs={len(members)} first_seed={seed} msg={v['msg']}")
                exit_code = 1
        if crashes:
            os.makedirs(REPLAY_DIR, exist_ok=True)
            i, rc = sorted(crashes)[0]
            seed = run_seed(verif_seed, prop, tier, i)
            rule = f"CRASH:{rc}"
            v = {"rule": rule, "msg": f"the interpreter executing this run died (exit status {rc}): the code under test crashed the process", "detail": {"status": str(rc)}}
            path = write_replay(prop, seed, tier, mod.generate(seed, tier), rule, v, {"reproduced": None, "tries": 0})
            if not verify_replay(prop, path, "CRASH"):
                batch.probes["replay_not_reproducible"] += 1
            lines.append(f"VIOLATION property={prop} replay={path}")
            lines.append(f"  rule={rule} runs={len(crashes)} first_seed={seed} msg={v['msg']}")
            exit_code = 1
    except Exception as e:  # noqa: BLE001  broken pool, timeout, ...
        batch.harness_errors.append((-1, -1, "".join(traceback.format_exception(type(e), e, e.__traceback__))))
    if batch.harness_errors:
        exit_code = 2 if exit_code == 0 else exit_code
        for i, seed, msg in batch.harness_errors[:3]:
            lines.append(f"HARNESS-ERROR property={prop} run={i} seed={seed}\n{msg}")
    if batch.recheck["mismatches"]:
        lines.append(f"HARNESS-ERROR property={prop} determinism re-check: {batch.recheck['mismatches']} digest mismatches")
        exit_code = 2 if exit_code == 0 else exit_code
    wall = time.time() - t0
    write_evidence(batch, wall, exit_code, lines)
    for ln in lines:
        print(ln)
    return exit_code


def write_replay(prop, seed, tier, plan, rule, viol, mres, suffix=""):
    slug = "".join(ch if ch.isalnum() else "_" for ch in rule)[:40]
    path = os.path.join(REPLAY_DIR, f"{prop}-{seed}-{slug}{suffix}.json")
    doc = {
        "property": prop,
        "rule": rule,
        "message": viol["msg"],
        "detail": viol.get("detail", {}),
        "original_run_seed": seed,
        "tier": tier,
        "minimiser": {"reproduced": mres.get("reproduced"), "executions": mres.get("tries")},
        "plan": plan,
        "replay_cmd": f"./check {prop} --replay {path}",
    }
    with open(path, "w") as f:
        json.dump(doc, f, indent=1, default=str)
    return path


def verify_replay(prop, path, rule):
    """Replay in a FRESH interpreter; must exit 1 and name the same rule."""
    env = dict(os.environ)
    env["PYTHONDONTWRITEBYTECODE"] = "1"
    env["PYTHONHASHSEED"] = "0"
    p = subprocess.run(
        [sys.executable, "-B", os.path.join(VERIF_DIR, "qsim", "cli.py"), prop, "--replay", path],
        capture_output=True,
        text=True,
        env=env,
        timeout=600,
        cwd=VERIF_DIR,
    )
    return p.returncode == 1 and f"rule={rule}" in p.stdout


def replay(prop, path):
    with open(path) as f:
        doc = json.load(f)
    if str(doc.get("rule", "")).startswith("CRASH") and not os.environ.get("QSIM_REPLAY_CHILD"):
        # the recorded violation killed the interpreter: replay it in a child and look at how it ends
        env = dict(os.environ, QSIM_REPLAY_CHILD="1", PYTHONDONTWRITEBYTECODE="1")
        p = subprocess.run([sys.executable, "-B", os.path.join(VERIF_DIR, "qsim", "cli.py"), prop, "--replay", path], env=env, cwd=VERIF_DIR, capture_output=True, text=True, timeout=CHUNK_WALL_S)
        if p.returncode not in (0, 1, 2):
            print(f"VIOLATION property={prop} replay={path}")
            print(f"  rule=CRASH:{p.returncode} msg=replaying this plan kills the interpreter (exit status {p.returncode})")
            return 1
        sys.stdout.write(p.stdout)
        return p.returncode
    worker_init(REPO)
    res = execute_plan(prop, doc["plan"])
    if "harness_error" in res:
        print(f"HARNESS-ERROR property={prop}\n{res['harness_error']}")
        return 2
    rules = _rules(res)
    want = doc.get("rule")
    known = load_known()
    code = 0
    for v in res["violations"]:
        k = match_known(prop, v, known)
        if k is not None:
            print(f"KNOWN-FINDING: property={prop} {k['what']} [{k['id']}; rule {v['rule']}]")
            continue
        if want is None or v["rule"] == want:
            print(f"VIOLATION property={prop} replay={path}")
            print(f"  rule={v['rule']} msg={v['msg']}")
            code = 1
            break
    if code == 0 and rules and want not in rules:
        v = res["violations"][0]
        if match_known(prop, v, known) is None:
            print(f"VIOLATION property={prop} replay={path}")
            print(f"  rule={v['rule']} msg={v['msg']} (recorded rule was {want})")
            code = 1
    if code == 0:
        print(f"replay of {path}: no violation (digest {res['digest'][:16]})")
    return code


def write_evidence(batch, wall, exit_code, lines):
    mod = batch.mod
    prop = batch.prop
    samples = []
    for i in sorted(batch.sample_traces)[:3]:
        seed = run_seed(batch.verif_seed, prop, batch.tier, i)
        samples.append({"run_index": i, "run_seed": seed, "plan": mod.generate(seed, batch.tier), "abstract_trace": batch.sample_traces[i]})
    if not samples:
        seed = run_seed(batch.verif_seed, prop, batch.tier, 0)
        samples.append({"run_index": 0, "run_seed": seed, "plan": mod.generate(seed, batch.tier)})
    n = batch.n
    per_hour = int(n / wall * 3600) if wall > 0 else 0
    cov = {
        "evaluations": n,
        "distinct_nontrivial": len(batch.nontrivial_traces),
        "distinct_traces": len(batch.traces),
        "rule": mod.RULE,
        "samples": samples,
        "runs_per_hour": per_hour,
        "seeds_per_hour": per_hour,
        "sim_time": dict(batch.sim),
        "faults_fired": dict(batch.faults),
        "fault_sites_distinct": len(batch.fault_sites),
        "probes": dict(batch.probes),
        "oracle_inconclusive": dict(batch.inconclusive),
        "determinism_recheck": batch.recheck,
        "components": mod.COMPONENTS,
        "workers": NPROC,
        "harness_errors": len(batch.harness_errors),
        "report": [ln for ln in lines if not ln.startswith("HARNESS-ERROR")][:20],
        "repo": REPO,
    }
    doc = {
        "property_id": prop,
        "tier": batch.tier,
        "seed": int(batch.verif_seed),
        "level": "exploration",
        "coverage": cov,
        "assumptions": list(getattr(mod, "ASSUMPTIONS", [])),
        "wall_s": round(wall, 2),
        "violations": sum(1 for ln in lines if ln.startswith("VIOLATION")),
    }
    edir = os.environ.get("QSIM_EVIDENCE_DIR", os.path.join(VERIF_DIR, "evidence"))
    os.makedirs(edir, exist_ok=True)
    with open(os.path.join(edir, f"{prop}.json"), "w") as f:
        json.dump(doc, f, indent=1, default=str)
    if batch.tier == "thorough":
        # keep the deepest exploration next to the per-change evidence (the latter is rewritten by every quick run)
        os.makedirs(os.path.join(edir, "thorough"), exist_ok=True)
        with open(os.path.join(edir, "thorough", f"{prop}.json"), "w") as f:
            json.dump(doc, f, indent=1, default=str)


# ---------------------------------------------------------------------------
# determinism self-test support: dump run digests for the first n run indices
# ---------------------------------------------------------------------------
def dump_digests(prop, tier, verif_seed, n, out_path):
    batch = Batch(prop, tier, verif_seed)
    with _pool() as ex:
        chunk = max(1, n // (NPROC * 4) or 1)
        futs = _submit_range(ex, batch, 0, n, chunk, set())
        for f in as_completed(futs, timeout=CHUNK_WALL_S * 2):
            for i, seed, res in f.result():
                batch.absorb(i, seed, res)
    doc = {
        "property": prop,
        "n": batch.n,
        "digests": {str(i): d for i, d in sorted(batch.digests.items())},
        "harness_errors": [list(map(str, e)) for e in batch.harness_errors[:5]],
        "hashseed": os.environ.get("PYTHONHASHSEED"),
        "workers": NPROC,
    }
    with open(out_path, "w") as f:
        json.dump(doc, f)
    return 0 if not batch.harness_errors else 2


def dump_log(prop, tier, verif_seed, i):
    """Full event log of one run (for entry-by-entry diffs on a digest mismatch)."""
    worker_init(REPO)
    mod = load_check(prop)
    seed = run_seed(verif_seed, prop, tier, i)
    plan = mod.generate(seed, tier)
    import qsim.core as core

    captured = {}
    orig = core.Run.result

    def result(self):
        captured["log"] = [repr(e) for e in self.log.entries]
        return orig(self)

    core.Run.result = result
    try:
        mod.execute(plan)
    finally:
        core.Run.result = orig
    return captured.get("log", [])
