"""Core of the simulator: seed derivation, event log, digests, run context.

Nothing in this module draws from a PRNG or reads a clock; logging never
perturbs a schedule.
"""
import hashlib
import os
import sys
import traceback
from collections import Counter

VERIF_DIR = os.path.dirname(os.path.dirname(os.path.abspath(__file__)))


# --------------------------------------------------------------------------
# seeds
# --------------------------------------------------------------------------
def h64(s):
    return int.from_bytes(hashlib.blake2b(s.encode(), digest_size=8).digest(), "big")


def run_seed(verif_seed, prop, tier, i):
    return h64(f"{verif_seed}:{prop}:{tier}:{i}")


def sub_seed(seed, *tags):
    return h64(":".join(str(t) for t in (seed,) + tags))


# --------------------------------------------------------------------------
# exceptions
# --------------------------------------------------------------------------
class SimCrash(BaseException):
    """Simulated process death.  BaseException so that no `except Exception`
    in the code under test can swallow it."""


class HarnessError(Exception):
    """A bug or an impossible situation inside the verification machinery.
    Never a verdict about the code under test (exit code 2)."""


# --------------------------------------------------------------------------
# digests
# --------------------------------------------------------------------------
def tdigest(t):
    """Short, address-free digest of a tensor / ndarray (shape, dtype, bytes)."""
    import numpy as np

    try:
        import torch

        if isinstance(t, torch.Tensor):
            a = t.detach().cpu().contiguous().numpy()
        else:
            a = np.ascontiguousarray(t)
    except ImportError:  # pragma: no cover
        a = np.ascontiguousarray(t)
    h = hashlib.sha1()
    h.update(str(a.shape).encode())
    h.update(str(a.dtype).encode())
    h.update(a.tobytes())
    return h.hexdigest()[:16]


def state_digest(nn_state):
    """Digest of every parameter of every network, in networks/parameters order."""
    h = hashlib.sha1()
    for net in nn_state.networks:
        rbm = getattr(nn_state, net)
        for name, p in rbm.named_parameters():
            h.update(net.encode())
            h.update(name.encode())
            h.update(tdigest(p.data).encode())
    return h.hexdigest()[:16]


def jdigest(obj):
    import json

    return hashlib.sha1(json.dumps(obj, sort_keys=True, default=str).encode()).hexdigest()[:16]


# --------------------------------------------------------------------------
# event log
# --------------------------------------------------------------------------
class Log:
    """Totally ordered event log.  Entries are tuples of plain values."""

    __slots__ = ("entries",)

    def __init__(self):
        self.entries = []

    def add(self, *entry):
        self.entries.append(entry)
        return len(self.entries) - 1

    def __len__(self):
        return len(self.entries)

    def digest(self):
        h = hashlib.sha256()
        for e in self.entries:
            h.update(repr(e).encode())
            h.update(b"\n")
        return h.hexdigest()

    def kinds(self):
        return [e[0] for e in self.entries]


# --------------------------------------------------------------------------
# classify exceptions: library under test vs. harness
# --------------------------------------------------------------------------
def _frames(exc):
    return traceback.extract_tb(exc.__traceback__)


def exception_signature(exc):
    """(rule, where) for an exception escaping from the code under test.

    rule = "EXC:<Type>@<innermost qucumber function>"; the innermost *qucumber*
    frame is used (not torch's) so the signature is stable across torch
    internals.
    """
    where = None
    for fr in reversed(_frames(exc)):
        fn = fr.filename.replace("\\", "/")
        if "/qucumber/" in fn and "/verif/" not in fn:
            where = fr.name
            break
    if where is None:
        where = "?"
    return f"EXC:{type(exc).__name__}@{where}"


def raised_by_harness(exc):
    """True iff the exception originated in /verif code that was not itself
    called from the code under test in a way that makes the library
    responsible (innermost frame lies in /verif)."""
    frames = _frames(exc)
    if not frames:
        return True
    fn = os.path.abspath(frames[-1].filename)
    return fn.startswith(VERIF_DIR + os.sep)


# --------------------------------------------------------------------------
# run context
# --------------------------------------------------------------------------
class Run:
    """Everything one simulated execution accumulates."""

    def __init__(self, plan):
        self.plan = plan
        self.log = Log()
        self.violations = []  # list of dict(rule, msg, detail)
        self.faults = Counter()  # fault kind -> times it actually fired
        self.fault_sites = set()  # distinct landing sites (strings)
        self.probes = Counter()  # named rare-branch probes
        self.sim = Counter()  # simulated time: epochs, batches, gibbs_steps, ...
        self.inconclusive = Counter()  # oracle -> times it could not judge
        self.trace = []  # abstract trace (no payload digests)
        self.nontrivial = False

    # -- verdicts ---------------------------------------------------------
    def violate(self, rule, msg, **detail):
        self.violations.append({"rule": rule, "msg": msg, "detail": detail})
        self.log.add("VIOLATION", rule, msg)

    def require(self, cond, rule, msg, **detail):
        if not cond:
            self.violate(rule, msg, **detail)
        return bool(cond)

    def lib_exception(self, exc, what, **detail):
        """An exception escaped from a library call that the property says is
        legal: that is a violation, unless the harness itself raised it."""
        if isinstance(exc, (SimCrash, HarnessError, KeyboardInterrupt, SystemExit)):
            raise exc
        if getattr(exc, "qsim_emulates_torch", False) or "Expected p_in >= 0 && p_in <= 1" in str(exc):
            # training diverged numerically (NaN probabilities): torch refuses to sample; this is
            # about the learning rate, not about any property - the run is not judged
            self.inconclusive["diverged_nan_probability"] += 1
            self.log.add("DIVERGED", what)
            return
        if raised_by_harness(exc):
            raise HarnessError(
                f"harness raised inside {what}: {type(exc).__name__}: {exc}\n"
                + "".join(traceback.format_exception(type(exc), exc, exc.__traceback__))
            ) from exc
        rule = exception_signature(exc)
        detail = dict(detail)
        detail["exc_type"] = type(exc).__name__
        detail["exc_msg"] = str(exc)[:300]
        self.violate(rule, f"{what} raised {type(exc).__name__}: {str(exc)[:200]}", **detail)

    def fault(self, kind, site=None):
        self.faults[kind] += 1
        if site is not None:
            self.fault_sites.add(f"{kind}@{site}")

    # -- result -----------------------------------------------------------
    def result(self):
        tkey = hashlib.sha1(repr(self.trace).encode()).hexdigest()[:16]
        return {
            "violations": self.violations,
            "digest": self.log.digest(),
            "trace_key": tkey,
            "nontrivial": bool(self.nontrivial),
            "faults": dict(self.faults),
            "fault_sites": sorted(self.fault_sites),
            "probes": dict(self.probes),
            "sim": dict(self.sim),
            "inconclusive": dict(self.inconclusive),
            "log_len": len(self.log),
            "trace": self.trace,
        }


def close(a, b, tol=1e-9):
    a = float(a)
    b = float(b)
    if a != a or b != b:
        return (a != a) and (b != b)
    if a == b:
        return True
    return abs(a - b) <= tol * max(1.0, abs(a), abs(b))


def teq(a, b):
    """bitwise-style tensor equality that treats NaN as equal to NaN (a diverged
    training run must not make an identity check fail)"""
    import torch

    if a.shape != b.shape or a.dtype != b.dtype:
        return False
    if torch.equal(a, b):
        return True
    if a.is_floating_point():
        return bool(((a == b) | (a.isnan() & b.isnan())).all())
    return False
