"""Builders shared by the checks: states with randomised (non-zero-bias)
parameters, training data and bases, witness callbacks.  Everything is a pure
function of the plan's config (numpy PCG64 seeded from the plan), never of the
process state."""
import numpy as np
import torch

from .core import state_digest, tdigest

TYPES = ("positive", "complex", "density")


def _gen(seed):
    return np.random.Generator(np.random.PCG64(int(seed) & (2 ** 64 - 1)))


def qc():
    import qucumber  # noqa: F401  (imported lazily: QSIM_REPO decides which tree)
    from qucumber import nn_states

    return nn_states


def new_state(kind, nv, nh=None, na=None, unitary_dict=None, module=None, gpu=False):
    """gpu=True is legal on this CPU-only machine: the documented behaviour is a warning and a CPU model."""
    ns = qc()
    if kind == "positive":
        return ns.PositiveWaveFunction(nv, nh, gpu=gpu, module=module)
    if kind == "complex":
        return ns.ComplexWaveFunction(nv, nh, unitary_dict=unitary_dict, gpu=gpu, module=module)
    if kind == "density":
        return ns.DensityMatrix(nv, nh, na, unitary_dict=unitary_dict, gpu=gpu, module=module)
    raise ValueError(kind)


def state_class(kind):
    ns = qc()
    return {"positive": ns.PositiveWaveFunction, "complex": ns.ComplexWaveFunction, "density": ns.DensityMatrix}[kind]


def randomise(state, seed, scale=1.0, bias_scale=None):
    """Overwrite every parameter of every network in place with values from
    PCG64(seed): weights ~ N(0,1)*scale/sqrt(nv); ALL biases non-zero, either
    sign, magnitude in [0.2,1]*bias_scale.  The phase network's auxiliary bias
    keeps its documented value 0."""
    g = _gen(seed)
    bias_scale = scale if bias_scale is None else bias_scale
    for net in state.networks:
        rbm = getattr(state, net)
        for name, p in rbm.named_parameters():
            shape = tuple(p.shape)
            if name.startswith("weights"):
                val = g.standard_normal(shape) * scale / np.sqrt(max(1, rbm.num_visible))
            else:
                mag = (0.2 + 0.8 * g.random(shape)) * bias_scale
                sign = np.where(g.random(shape) < 0.5, -1.0, 1.0)
                val = mag * sign
                if net == "rbm_ph" and name == "aux_bias":
                    val = np.zeros(shape)
            p.data.copy_(torch.from_numpy(np.ascontiguousarray(val)).to(p.data))
    return state


def build_state(cfg):
    """cfg: {type, nv, nh, na, scale, pseed, [custom_unitary]}"""
    udict = None
    if cfg.get("custom_unitary") and cfg["type"] != "positive":
        from qucumber.utils import unitaries

        # a user-added real unitary (a reflection), named "H"
        th = 0.37
        udict = unitaries.create_dict(
            **{cfg.get("custom_name", "H"): torch.tensor(
                [
                    [[np.cos(th), np.sin(th)], [np.sin(th), -np.cos(th)]],
                    [[0.0, 0.0], [0.0, 0.0]],
                ],
                dtype=torch.double,
            )}
        )
    st = new_state(cfg["type"], cfg["nv"], cfg.get("nh"), cfg.get("na"), unitary_dict=udict)
    randomise(st, cfg["pseed"], cfg.get("scale", 1.0))
    if cfg.get("wells"):
        # a metastable two-well model (all spins down / all spins up, equal depth up to the small random part):
        # the regime where a long chain's law depends on every sweep being an independent kernel application
        nv_, nh_ = cfg["nv"], cfg.get("nh") or cfg["nv"]
        J = float(cfg["wells"]) / np.sqrt(nv_ * nh_)
        randomise(st, cfg["pseed"], 0.05)
        rbm = st.rbm_am
        for name, p in rbm.named_parameters():
            if name in ("weights", "weights_W"):
                p.data += J
            elif name == "visible_bias":
                p.data += -J * nh_ / 2
            elif name == "hidden_bias":
                p.data += -J * nv_ / 2
    if cfg.get("param_layout") == "colmajor" and cfg["type"] != "density":
        # the user assigned weight matrices built by a transpose: same values, column-major memory
        # (PurificationRBM.gamma_grad uses .view on its weights and does not support this; not generated)
        for net in st.networks:
            for name, p in getattr(st, net).named_parameters():
                if name.startswith("weights") and p.dim() == 2 and min(p.shape) > 1:
                    p.data = p.data.t().contiguous().t()
    return st


def build_data(cfg, with_bases):
    """cfg: {N, nv, dseed, form, dup, basis_mode, custom_unitary}
    returns (data_in_requested_form, data_as_float_ndarray, bases_or_None)"""
    g = _gen(cfg["dseed"])
    N, nv = cfg["N"], cfg["nv"]
    data = g.integers(0, 2, size=(N, nv)).astype(np.float64)
    if cfg.get("rows_mode") == "leading_columns" and N >= 2:
        # every row is the first one except for its leading columns (records that agree on the last 64 spins)
        for i in range(1, N):
            data[i] = data[0]
            data[i, : min(6, nv)] = g.integers(0, 2, size=min(6, nv))
    if cfg.get("dup") and N >= 2:
        # force duplicate rows
        for _ in range(max(1, N // 3)):
            i, j = g.integers(0, N, size=2)
            data[i] = data[j]
    bases = None
    if with_bases:
        letters = ["X", "Y", "Z"]
        if cfg.get("custom_unitary"):
            letters.append(cfg.get("custom_name", "H"))  # basis names are strings of any length
        mode = cfg.get("basis_mode", "mixed")
        bases = np.full((N, nv), "Z", dtype="<U%d" % max(len(x) for x in letters))
        if mode == "mixed":
            for i in range(N):
                if g.random() < 0.6:
                    for j in range(nv):
                        if g.random() < 0.5:
                            bases[i, j] = letters[int(g.integers(0, len(letters)))]
        elif mode == "all_random":
            # a randomised-measurement record: (almost) every row has its own setting
            bases[...] = np.array(letters)[g.integers(0, len(letters), size=(N, nv))]
        elif mode == "one_setting":
            # one rotated setting shared by all rows but the first (which stays in the reference basis)
            row = np.array([letters[int(g.integers(0, 2))] for _ in range(nv)])
            bases[1:] = row
        elif mode == "high_sites_shared":
            row = np.full(nv, "Z", dtype=bases.dtype)
            row[-1] = "X"
            bases[1:] = row
        elif mode == "high_sites":
            # wide systems: only the last two sites are ever rotated (each row differently)
            for i in range(N):
                for j in range(max(0, nv - 2), nv):
                    bases[i, j] = letters[int(g.integers(0, len(letters)))]
        elif mode == "repeated":
            row = np.array([letters[int(g.integers(0, len(letters)))] for _ in range(nv)])
            for i in range(N):
                if g.random() < 0.5:
                    bases[i] = row
        # at least one all-Z row (legal input: negative phase needs reference-basis rows)
        if not (bases == "Z").all(axis=1).any():
            bases[int(g.integers(0, N))] = "Z"
    form = cfg.get("form", "tensor")
    if form == "tensor":
        din = torch.tensor(data, dtype=torch.double)
    elif form == "tensor_f32":
        din = torch.tensor(data, dtype=torch.float32)
    elif form == "ndarray":
        din = data.copy()
    elif form == "list":
        din = data.tolist()
    else:
        raise ValueError(form)
    return din, data, bases


def make_witness(run, idx, handler=None, preempt=None, snapshot=True, flavour="class", retired=None, ret=None):
    """A user callback that records every protocol event into the run log.

    handler(kind, args, idx, nn_state, seq) is called after logging.
    flavour "lambda" builds the same thing through qucumber's LambdaCallback."""
    from qucumber.callbacks import CallbackBase, LambdaCallback

    seen = {"n": 0}

    def ev(kind, nn_state, *args):
        if retired is not None and retired.get("v"):
            # this callback object was taken out of the caller's list before the run: it must hear nothing
            run.log.add("ev-retired", kind, idx)
            return
        seen["n"] += 1
        if idx == 0 and preempt is not None:
            preempt.mark_event()
        dg = state_digest(nn_state) if snapshot else None
        seq = run.log.add("ev", kind, tuple(int(a) for a in args), idx, dg)
        if handler is not None:
            handler(kind, args, idx, nn_state, seq)
        return ret  # hooks may return anything (a count, True, a tuple): nobody is supposed to look at it

    if flavour == "lambda":
        return LambdaCallback(
            on_train_start=lambda s: ev("TS", s),
            on_train_end=lambda s: ev("TE", s),
            on_epoch_start=lambda s, e: ev("ES", s, e),
            on_epoch_end=lambda s, e: ev("EE", s, e),
            on_batch_start=lambda s, e, b: ev("BS", s, e, b),
            on_batch_end=lambda s, e, b: ev("BE", s, e, b),
        )

    class Witness(CallbackBase):
        if flavour == "sized":
            # a perfectly legal callback that is also a container of what it has seen: empty (falsy) at first
            def __len__(self):
                return seen["n"]

        def on_train_start(self, s):
            return ev("TS", s)

        def on_train_end(self, s):
            return ev("TE", s)

        def on_epoch_start(self, s, e):
            return ev("ES", s, e)

        def on_epoch_end(self, s, e):
            return ev("EE", s, e)

        def on_batch_start(self, s, e, b):
            return ev("BS", s, e, b)

        def on_batch_end(self, s, e, b):
            return ev("BE", s, e, b)

    return Witness()


def params_snapshot(state):
    """Deep copy of every parameter: {net: {name: ndarray}}"""
    return {
        net: {n: p.data.detach().cpu().numpy().copy() for n, p in getattr(state, net).named_parameters()}
        for net in state.networks
    }


def snapshots_equal(a, b):
    if a.keys() != b.keys():
        return False
    for net in a:
        if a[net].keys() != b[net].keys():
            return False
        for n in a[net]:
            x, y = a[net][n], b[net][n]
            if x.shape != y.shape or not np.array_equal(x, y, equal_nan=True):
                return False
    return True


def fit_code():
    from qucumber.nn_states.neural_state import NeuralStateBase

    return NeuralStateBase.fit.__code__
