"""Plan generation helpers.  Torch-free and hash-seed-free: only
random.Random(run_seed) decides; no sets, no dict-order dependence, no id()."""
import random

TYPES = ("positive", "complex", "density")


def rng_for(seed):
    return random.Random(int(seed))


def s64(r):
    return r.getrandbits(63)


def gen_state_cfg(r, types=TYPES, type_weights=(2, 1, 1), max_nv=3, max_nh=3, max_na=2, scales=(0.1, 1.0, 3.0), custom_p=0.25):
    typ = r.choices(types, weights=type_weights[: len(types)])[0]
    nv = r.randint(1, max_nv)
    # prefer nh != nv
    nh = r.randint(1, max_nh)
    if nh == nv and r.random() < 0.7:
        nh = r.choice([h for h in range(1, max_nh + 1) if h != nv] or [nh])
    cfg = {
        "type": typ,
        "nv": nv,
        "nh": nh,
        "scale": r.choice(scales),
        "pseed": s64(r),
    }
    if typ == "density":
        cfg["na"] = r.randint(1, max_na)
    if typ != "positive" and r.random() < custom_p:
        cfg["custom_unitary"] = True
        cfg["custom_name"] = r.choice(["H", "H", "Xr", "rot2"])
    if typ != "density" and r.random() < 0.12:
        cfg["param_layout"] = "colmajor"
    return cfg


def gen_data_cfg(r, scfg, max_N=9, forms=("tensor", "tensor", "ndarray", "list"), min_N=1):
    N = r.randint(min_N, max_N)
    cfg = {
        "N": N,
        "nv": scfg["nv"],
        "dseed": s64(r),
        "form": r.choice(forms),
        "dup": r.random() < 0.4,
        "basis_mode": r.choice(["mixed", "mixed", "allZ", "repeated"]),
    }
    if scfg.get("custom_unitary"):
        cfg["custom_unitary"] = True
        cfg["custom_name"] = scfg.get("custom_name", "H")
    return cfg


def gen_batching(r, N):
    pos = r.choice([1, 2, 3, 4, N, N + 2, max(1, N // 2)])
    pos = max(1, pos)
    m = r.random()
    if m < 0.4:
        neg = None
    elif m < 0.6:
        neg = pos
    else:
        neg = r.choice([1, 2, 3, 5, N + 1])
    return pos, neg


def needs_bases(scfg, r=None, positive_with_bases_p=0.0):
    if scfg["type"] != "positive":
        return True
    return False
