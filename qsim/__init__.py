"""qsim - deterministic simulation with fault injection for PIQuIL/QuCumber.

See /verif/DESIGN.md.  One integer (VERIF_SEED) -> run seeds -> plans (plain
JSON) -> executions (pure functions of plan and code under test) -> logs,
oracle verdicts, minimised replay files.
"""
