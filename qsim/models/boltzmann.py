"""Reference model for Gibbs sampling: the enumerated joint Boltzmann table

    T[v,h,a]  proportional to  exp(b.v + c.h + d.a + h W v + a U v)

built with numpy from the raw parameter tensors, in log space.  Independent of
every library formula (no sigmoid, no softplus): every conditional is a ratio
of sums over the table.
"""
import numpy as np


def bits(n):
    """(2^n, n) matrix, row i = binary digits of i, most significant first
    (the convention of generate_hilbert_space)."""
    if n == 0:
        return np.zeros((1, 0))
    idx = np.arange(2 ** n)
    return ((idx[:, None] >> np.arange(n - 1, -1, -1)[None, :]) & 1).astype(np.float64)


def row_index(rows):
    """rows: (B, n) array of 0/1 -> integer indices (MSB first)."""
    rows = np.asarray(rows)
    n = rows.shape[-1]
    w = (1 << np.arange(n - 1, -1, -1)).astype(np.int64)
    return (np.rint(rows).astype(np.int64) * w).sum(-1)


def raw_params(rbm):
    """numpy copies of the parameters of a BinaryRBM / PurificationRBM."""
    p = {n: t.data.detach().cpu().numpy().astype(np.float64).copy() for n, t in rbm.named_parameters()}
    if "weights" in p:
        return {"W": p["weights"], "b": p["visible_bias"], "c": p["hidden_bias"], "U": None, "d": None}
    return {"W": p["weights_W"], "U": p["weights_U"], "b": p["visible_bias"], "c": p["hidden_bias"], "d": p["aux_bias"]}


class Table:
    def __init__(self, prm):
        W, b, c, U, d = prm["W"], prm["b"], prm["c"], prm["U"], prm["d"]
        self.nv = b.shape[0]
        self.nh = c.shape[0]
        self.na = 0 if U is None else d.shape[0]
        self.Vb = bits(self.nv)
        self.Hb = bits(self.nh)
        self.Ab = bits(self.na)
        # log weight, shape (V, H, A)
        lw = (self.Vb @ b)[:, None, None] + (self.Hb @ c)[None, :, None]
        lw = lw + (self.Vb @ W.T @ self.Hb.T)[:, :, None]  # sum_ij h_i W_ij v_j
        if self.na:
            lw = lw + (self.Ab @ d)[None, None, :] + (self.Vb @ U.T @ self.Ab.T)[:, None, :]
        self.lw = lw

    # ---- marginals ------------------------------------------------------
    def visible_marginal(self):
        lu = self.log_unnorm_visible()
        pv = np.exp(lu - lu.max())
        return pv / pv.sum()

    def _rows(self, vidx):
        lw = self.lw[vidx]  # (B,H,A)
        return np.exp(lw - lw.max(axis=(1, 2), keepdims=True))

    def log_unnorm_visible(self):
        """log sum_{h,a} exp(lw) per visible state (the reported -effective energy)."""
        m = self.lw.max(axis=(1, 2), keepdims=True)
        return (m[:, 0, 0] + np.log(np.exp(self.lw - m).sum(axis=(1, 2))))

    def p_h_given_v(self, vidx):
        """(B, nh): P(h_j = 1 | v)"""
        w = self._rows(vidx)  # (B,H,A)
        tot = w.sum(axis=(1, 2))  # (B,)
        wh = w.sum(axis=2)  # (B,H)
        return (wh @ self.Hb) / tot[:, None]

    def p_a_given_v(self, vidx):
        w = self._rows(vidx)
        tot = w.sum(axis=(1, 2))
        wa = w.sum(axis=1)  # (B,A)
        return (wa @ self.Ab) / tot[:, None]

    def p_v_given_ha(self, hidx, aidx):
        """(B, nv): P(v_i = 1 | h, a)"""
        # use per-row max shift for stability: conditionals over v for fixed (h,a)
        lw = self.lw[:, hidx, aidx].T  # (B,V)
        lw = lw - lw.max(axis=1, keepdims=True)
        w = np.exp(lw)
        return (w @ self.Vb) / w.sum(axis=1, keepdims=True)

    # ---- k-step kernel on visible states ---------------------------------
    def kernel(self):
        """K[v, v'] = sum_{h,a} P(h,a|v) P(v'|h,a)   (exact one-step block-Gibbs kernel)"""
        V, H, A = self.lw.shape
        w = self._rows(np.arange(V)).reshape(V, H * A)
        p_la_given_v = w / w.sum(axis=1, keepdims=True)  # (V, HA)
        lw = self.lw.reshape(V, H * A)
        lw = lw - lw.max(axis=0, keepdims=True)
        e = np.exp(lw)
        p_v_given_la = (e / e.sum(axis=0, keepdims=True)).T  # (HA, V)
        return p_la_given_v @ p_v_given_la


def sigmoid(x):
    return 0.5 * (1.0 + np.tanh(0.5 * x))


class Formula:
    """Closed-form conditionals (used where the table would be too large, e.g.
    inside training checks).  Same interface on rows instead of indices."""

    def __init__(self, prm):
        self.p = prm
        self.nv = prm["b"].shape[0]
        self.nh = prm["c"].shape[0]
        self.na = 0 if prm["U"] is None else prm["d"].shape[0]

    def p_h_given_v(self, v):
        return sigmoid(v @ self.p["W"].T + self.p["c"])

    def p_a_given_v(self, v):
        return sigmoid(v @ self.p["U"].T + self.p["d"])

    def p_v_given_ha(self, h, a=None):
        x = h @ self.p["W"] + self.p["b"]
        if self.na:
            x = x + a @ self.p["U"]
        return sigmoid(x)

    def eff_energy_grad_sum(self, v):
        """sum over rows of the gradient of the effective energy, in
        parameters() order [W,(U),b,c,(d)] flattened."""
        ph = self.p_h_given_v(v)
        parts = [-(ph.T @ v).reshape(-1)]
        if self.na:
            pa = self.p_a_given_v(v)
            parts.append(-(pa.T @ v).reshape(-1))
        parts.append(-v.sum(0))
        parts.append(-ph.sum(0))
        if self.na:
            parts.append(-pa.sum(0))
        return np.concatenate(parts)


class GibbsRefiner:
    """Walks beside a block-Gibbs chain, fed by the RNG seam.

    expect(model, start_rows, k): arm for one chain of k steps from start_rows.
    feed(pa, outcome): one Bernoulli call (probability array, served outcome).
    status: "ok" | "mismatch" (a conditional had the wrong value) |
            "structure" (draw structure not recognised -> inconclusive).
    """

    def __init__(self, model, use_table, tol=1e-9):
        self.m = model
        self.use_table = use_table
        self.tol = tol
        self.reset(None, 0)

    def reset(self, start, k):
        self.v = None if start is None else np.array(start, dtype=np.float64).reshape(-1, self.m.nv)
        self.k = k
        self.step = 0
        self.pending = None
        self.h = None
        self.a = None
        self.status = "ok"
        self.msg = ""
        self.ncalls = 0
        self.maxdev = 0.0
        self.saturated = 0
        self.ambiguous = False

    def _cond_h(self):
        if self.use_table:
            return self.m.p_h_given_v(row_index(self.v))
        return self.m.p_h_given_v(self.v)

    def _cond_a(self):
        if self.use_table:
            return self.m.p_a_given_v(row_index(self.v))
        return self.m.p_a_given_v(self.v)

    def _cond_v(self):
        if self.use_table:
            aidx = row_index(self.a) if self.m.na else np.zeros(len(self.h), dtype=np.int64)
            return self.m.p_v_given_ha(row_index(self.h), aidx)
        return self.m.p_v_given_ha(self.h, self.a)

    def done(self):
        return self.status != "ok" or (self.step >= self.k and self.pending is None)

    def feed(self, pa, outcome):
        if self.status != "ok":
            return
        self.ncalls += 1
        if self.step >= self.k and self.pending is None:
            self.status = "structure"
            self.msg = f"more than k={self.k} steps of draws"
            return
        B = self.v.shape[0]
        if pa.size % B != 0:
            self.status = "structure"
            self.msg = f"draw of {pa.size} values for {B} chains"
            return
        dim = pa.size // B
        p2 = pa.reshape(B, dim)
        o2 = outcome.reshape(B, dim)
        if self.pending is None:
            self.pending = ["h", "a"] if self.m.na else ["h"]
        if self.pending:
            cands = []
            for lay in self.pending:
                want_dim = self.m.nh if lay == "h" else self.m.na
                if want_dim != dim:
                    continue
                ref = self._cond_h() if lay == "h" else self._cond_a()
                dev = float(np.max(np.abs(ref - p2))) if ref.size else 0.0
                cands.append((dev, lay))
            if not cands:
                if dim == self.m.nv:
                    self.status = "mismatch"
                    self.msg = f"step {self.step}: visible units drawn before latent layer(s) {self.pending}"
                else:
                    self.status = "structure"
                    self.msg = f"step {self.step}: draw of width {dim} matches no latent layer"
                return
            dev, lay = min(cands)
            if len([c for c in cands if c[0] <= self.tol]) > 1:
                # both latent layers have the same width AND the same conditional for every chain
                # (e.g. zero biases and an all-zero visible row): which draw is which cannot be told yet
                self.ambiguous = True
            self.maxdev = max(self.maxdev, dev)
            if dev > self.tol:
                self.status = "mismatch"
                self.msg = (
                    f"step {self.step}: probabilities of layer '{lay}' deviate from the exact conditional "
                    f"given the current visible state by {dev:.3e}"
                )
                return
            if lay == "h":
                self.h = o2.copy()
            else:
                self.a = o2.copy()
            self.pending.remove(lay)
            self.saturated += int(((p2 == 0.0) | (p2 == 1.0)).sum())
            return
        # visible draw
        if dim != self.m.nv:
            self.status = "structure"
            self.msg = f"step {self.step}: expected visible draw of width {self.m.nv}, got {dim}"
            return
        ref = self._cond_v()
        dev = float(np.max(np.abs(ref - p2)))
        if dev > self.tol and self.ambiguous and self.m.na and self.h.shape == self.a.shape:
            # resolve the ambiguity the other way round
            self.h, self.a = self.a, self.h
            ref2 = self._cond_v()
            dev2 = float(np.max(np.abs(ref2 - p2)))
            if dev2 <= self.tol:
                dev = dev2
            else:
                self.h, self.a = self.a, self.h
        self.ambiguous = False
        self.maxdev = max(self.maxdev, dev)
        if dev > self.tol:
            self.status = "mismatch"
            self.msg = (
                f"step {self.step}: visible probabilities deviate from the exact conditional given the "
                f"latent outcomes just drawn by {dev:.3e}"
            )
            return
        self.saturated += int(((p2 == 0.0) | (p2 == 1.0)).sum())
        self.v = o2.copy()
        self.step += 1
        self.pending = None
