"""Reference model of the training event protocol and of stop handling (C12).

Input: the run log (events recorded by the witness callbacks and STOP markers
share one sequence), the number of witnesses, and the expected shape of the
run (starting_epoch, epochs, batches per epoch).  Output: violations added to
the run.  Rule ids as in DESIGN.md section 6 / C12.
"""
from math import ceil


def expected_trace(starting_epoch, epochs, nb):
    t = [("TS", ())]
    for e in range(starting_epoch, epochs + 1):
        t.append(("ES", (e,)))
        for b in range(nb):
            t.append(("BS", (e, b)))
            t.append(("BE", (e, b)))
        t.append(("EE", (e,)))
    t.append(("TE", ()))
    return t


def extract(run, n_wit, upto=None, frm=0):
    """Split the log into canonical items.

    Returns (items, ok) where items is a list of
       ("ev", kind, args, digest)           one per protocol event
       ("stop", how, ctx)                   one per stop request that fired
    Dispatch-order rule W-order is checked here: every protocol event must
    reach all witnesses, in list order, with identical arguments.
    """
    items = []
    pending = None  # [kind, args, next_idx]
    ok = True
    for ent in (run.log.entries[frm:] if upto is None else run.log.entries[frm:upto]):
        if ent[0] == "ev":
            _, kind, args, idx, dg = ent
            if idx == 0:
                if pending is not None and pending[2] != n_wit:
                    run.violate(
                        "W-order",
                        f"event {pending[0]}{pending[1]} reached only {pending[2]} of {n_wit} callbacks",
                    )
                    ok = False
                pending = [kind, args, 1]
                items.append(("ev", kind, args, dg))
            else:
                if pending is None or pending[0] != kind or pending[1] != args or pending[2] != idx:
                    run.violate(
                        "W-order",
                        f"callback {idx} received {kind}{args} out of list order "
                        f"(pending={pending})",
                    )
                    ok = False
                    if pending is not None:
                        pending[2] = idx + 1
                else:
                    pending[2] += 1
        elif ent[0] == "STOP":
            items.append(("stop",) + tuple(ent[1:]))
    if pending is not None and pending[2] != n_wit:
        run.violate("W-order", f"event {pending[0]}{pending[1]} reached only {pending[2]} of {n_wit} callbacks")
        ok = False
    return items, ok


def judge(run, items, starting_epoch, epochs, N, pos_bs, preset=False, flag_after=None, check_R=True, digest_before=None, digest_after=None):
    nb = ceil(N / pos_bs)
    evs = [(i, it) for i, it in enumerate(items) if it[0] == "ev"]
    stops = [(i, it) for i, it in enumerate(items) if it[0] == "stop"]
    seq = [(it[1], it[2]) for _, it in evs]

    # ---- S5: stop requested before the call ------------------------------
    if preset:
        run.require(not seq, "S5", f"fit with stop already requested emitted events: {seq[:4]}")
        return

    first_stop = stops[0][0] if stops else None

    # ---- Q: no stop -> exactly the reference trace -------------------------
    if first_stop is None:
        exp = expected_trace(starting_epoch, epochs, nb)
        if seq != exp:
            # first divergence
            k = 0
            while k < min(len(seq), len(exp)) and seq[k] == exp[k]:
                k += 1
            run.violate(
                "Q",
                f"trace without stop differs from reference at event {k}: "
                f"got {seq[k] if k < len(seq) else 'END'} expected {exp[k] if k < len(exp) else 'END'}",
                got_len=len(seq),
                exp_len=len(exp),
            )

    # ---- W: grammar ---------------------------------------------------------
    # TS (ES(e) (BS(e,b) BE(e,b))* EE(e))* TE ; epochs consecutive from
    # starting_epoch, batches consecutive from 0, at most nb per epoch, last
    # epoch <= epochs; epochs that ended before the first stop request are full.
    state = "start"
    cur_e = None
    cur_b = None
    nbatches = 0
    gram_ok = True

    def bad(msg):
        nonlocal gram_ok
        if gram_ok:
            run.violate("W", msg)
        gram_ok = False

    for pos, it in evs:
        kind, args = it[1], it[2]
        if not gram_ok:
            break
        if state == "start":
            if kind != "TS":
                bad(f"first event is {kind}{args}, expected TS")
            state = "between_epochs"
        elif state == "between_epochs":
            if kind == "ES":
                want = starting_epoch if cur_e is None else cur_e + 1
                if args != (want,):
                    bad(f"ES{args} but expected epoch {want}")
                elif want > epochs:
                    bad(f"epoch {want} started beyond last epoch {epochs}")
                cur_e = want
                nbatches = 0
                state = "in_epoch"
            elif kind == "TE":
                state = "done"
            else:
                bad(f"{kind}{args} outside an epoch")
        elif state == "in_epoch":
            if kind == "BS":
                if args != (cur_e, nbatches):
                    bad(f"BS{args} but expected {(cur_e, nbatches)}")
                elif nbatches >= nb:
                    bad(f"more than ceil(N/bs)={nb} batches in epoch {cur_e}")
                cur_b = nbatches
                state = "in_batch"
            elif kind == "EE":
                if args != (cur_e,):
                    bad(f"EE{args} but running epoch is {cur_e}")
                if (first_stop is None or pos < first_stop) and nbatches != nb:
                    bad(f"epoch {cur_e} ended after {nbatches} of {nb} batches with no stop requested")
                state = "between_epochs"
            else:
                bad(f"{kind}{args} inside epoch {cur_e}")
        elif state == "in_batch":
            if kind == "BE" and args == (cur_e, cur_b):
                nbatches += 1
                state = "in_epoch"
            else:
                bad(f"BS{(cur_e, cur_b)} followed by {kind}{args}, expected its BE")
        elif state == "done":
            bad(f"{kind}{args} after TE")
    if gram_ok and seq:
        # ---- S4: completeness ----------------------------------------------
        if state != "done":
            run.violate("S4", f"run ended in protocol state '{state}' (epoch {cur_e}): EE/TE missing")
    if gram_ok and not seq and first_stop is None:
        run.violate("W", "fit emitted no event although no stop was requested before the call")

    # ---- S1..S3: bounded reaction to the first request ----------------------
    if first_stop is not None:
        before = [it for i, it in evs if i < first_stop]
        after = [it for i, it in evs if i > first_stop]
        n_bs = sum(1 for it in after if it[1] == "BS")
        n_es = sum(1 for it in after if it[1] == "ES")
        st = items[first_stop]
        how = st[1]
        last = before[-1] if before else None
        lk = last[1] if last else None
        ctx = f"{how} stop after {lk}{last[2] if last else ''}"
        if n_bs > 1 or n_es > 1:
            run.violate("S1", f"{ctx}: {n_bs} more batch starts and {n_es} more epoch starts", how=how, last=lk)
        strict_batch = lk == "BS" or (lk == "BE" and how == "cb")
        if strict_batch and (n_bs or n_es):
            run.violate("S2", f"{ctx}: {n_bs} further BS, {n_es} further ES", how=how, last=lk)
        if lk == "EE" and how == "cb" and (n_es or n_bs):
            run.violate("S3", f"{ctx}: {n_es} further ES, {n_bs} further BS", how=how, last=lk)
        if lk == "ES" and n_es:
            run.violate("S1", f"{ctx}: another epoch started", how=how, last=lk)
        if lk == "TE" and (n_bs or n_es):
            run.violate("S1", f"{ctx}: events after train end", how=how, last=lk)
        if flag_after is not None and not flag_after:
            run.violate("P", f"{ctx}: stop request did not persist until fit returned", how=how, last=lk)

    # ---- R: parameters change only between BS and its BE ---------------------
    if check_R and evs:
        if digest_before is not None and evs[0][1][3] is not None and evs[0][1][3] != digest_before:
            run.violate("R", f"parameters changed between the call of fit and {evs[0][1][1]}{evs[0][1][2]}", frm="call", to=evs[0][1][1])
        if digest_after is not None and evs[-1][1][3] is not None and evs[-1][1][3] != digest_after:
            run.violate("R", f"parameters changed between {evs[-1][1][1]}{evs[-1][1][2]} and the return of fit", frm=evs[-1][1][1], to="return")
    if check_R:
        for (i0, a), (i1, b) in zip(evs, evs[1:]):
            if a[3] is None or b[3] is None:
                continue
            if a[3] != b[3] and not (a[1] == "BS" and b[1] == "BE"):
                run.violate(
                    "R",
                    f"parameters changed between {a[1]}{a[2]} and {b[1]}{b[2]}",
                    frm=a[1],
                    to=b[1],
                )
                break
