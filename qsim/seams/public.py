"""Public injection points used as seams: instance-level wrappers of public
methods (compute_batch_gradients, rbm_am.gibbs_steps, sample), and recording
subclasses of real torch optimizers / LR schedulers passed through fit's
optimizer= / scheduler= arguments."""
import numpy as np
import torch

from ..core import tdigest


def _np(t):
    return t.detach().cpu().numpy().astype(np.float64).copy()


class BatchCapture:
    """Wraps nn_state.compute_batch_gradients and nn_state.rbm_am.gibbs_steps on
    the *instance* (the class and every other instance stay untouched)."""

    def __init__(self, run, state, before_batch=None, after_batch=None, call_through=True):
        self.run = run
        self.state = state
        self.records = []
        self.current = None
        self.before_batch = before_batch
        self.after_batch = after_batch
        self.stray_gibbs = 0
        self._installed = False
        self.call_through = call_through  # False: only the batching is observed, no gradient is computed

    def install(self):
        state = self.state
        rbm = state.rbm_am
        orig_cbg = state.compute_batch_gradients
        orig_gibbs = rbm.gibbs_steps
        cap = self

        def compute_batch_gradients(k, samples_batch, neg_batch, *args, **kwargs):
            bases = args[0] if args else kwargs.get("bases_batch")
            rec = {
                "k": k,
                "samples": _np(samples_batch),
                "neg": _np(neg_batch),
                "bases": None if bases is None else np.array(bases, copy=True),
                "samples_dim": samples_batch.dim(),
                "vk": None,
                "gibbs_calls": 0,
            }
            cap.records.append(rec)
            cap.current = rec
            cap.run.log.add("cbg", k, tdigest(rec["samples"]), tdigest(rec["neg"]), None if bases is None else tdigest(rec["bases"]))
            if cap.before_batch is not None:
                cap.before_batch(rec, samples_batch, neg_batch, bases)
            try:
                if cap.call_through:
                    out = orig_cbg(k, samples_batch, neg_batch, *args, **kwargs)
                else:
                    out = [torch.zeros(getattr(state, net).num_pars, dtype=torch.double) for net in state.networks]
            finally:
                cap.current = None
            rec["returned"] = [(_np(g) if isinstance(g, torch.Tensor) else g) for g in out]
            if cap.after_batch is not None:
                cap.after_batch(rec)
            return out

        def gibbs_steps(k, initial_state, overwrite=False):
            out = orig_gibbs(k, initial_state, overwrite=overwrite)
            rec = cap.current
            if rec is None:
                cap.stray_gibbs += 1
            else:
                rec["gibbs_calls"] += 1
                rec["gibbs_k"] = k
                rec["gibbs_start"] = _np(initial_state) if not overwrite else None
                rec["vk"] = _np(out)
            return out

        state.__dict__["compute_batch_gradients"] = compute_batch_gradients
        object.__setattr__(rbm, "gibbs_steps", gibbs_steps)
        self._installed = True
        return self

    def uninstall(self):
        if self._installed:
            self.state.__dict__.pop("compute_batch_gradients", None)
            self.state.rbm_am.__dict__.pop("gibbs_steps", None)
            self._installed = False

    def __enter__(self):
        return self.install()

    def __exit__(self, *a):
        self.uninstall()
        return False


class OptRecorder:
    """What the recording optimizer / scheduler saw."""

    def __init__(self, run, state):
        self.run = run
        self.state = state
        self.steps = []
        self.sched_steps = 0
        self.armed = False  # set True at train start: constructor self-steps are not counted

    def named(self):
        out = []
        for net in self.state.networks:
            for name, p in getattr(self.state, net).named_parameters():
                out.append((net, name, p))
        return out


def recording_optimizer(base, rec):
    """Subclass of a real torch optimizer that records lr, every parameter
    before/after and its .grad at each step and delegates to the real step."""

    class Recording(base):
        def step(self, closure=None):
            entry = {
                "lr": [float(g["lr"]) for g in self.param_groups],
                "before": {},
                "grad": {},
                "n_opt_params": sum(len(g["params"]) for g in self.param_groups),
            }
            for net, name, p in rec.named():
                entry["before"][(net, name)] = _np(p.data)
                entry["grad"][(net, name)] = None if p.grad is None else _np(p.grad)
            out = super().step(closure)
            entry["after"] = {(net, name): _np(p.data) for net, name, p in rec.named()}
            rec.steps.append(entry)
            rec.run.log.add("opt", "step", len(rec.steps) - 1, entry["lr"][0])
            return out

    Recording.__name__ = "Recording" + base.__name__
    return Recording


def recording_scheduler(base, rec):
    class RecordingSched(base):
        def step(self, *a, **k):
            if rec.armed:
                rec.sched_steps += 1
                rec.run.log.add("sched", "step", rec.sched_steps)
            return super().step(*a, **k)

    RecordingSched.__name__ = "Recording" + base.__name__
    return RecordingSched


class SampleCapture:
    """Wraps nn_state.sample on the instance: per draw, k, the identity and
    digest of initial_state, a clone of the returned chains."""

    def __init__(self, run, state):
        self.run = run
        self.state = state
        self.draws = []
        self._installed = False

    def install(self):
        orig = self.state.sample
        cap = self

        def sample(k, num_samples=1, initial_state=None, overwrite=False):
            d = {
                "k": k,
                "num_samples": num_samples,
                "init_is_none": initial_state is None,
                "init_obj": initial_state,
                "init_before": None if initial_state is None else _np(initial_state),
                "overwrite": overwrite,
            }
            out = orig(k, num_samples=num_samples, initial_state=initial_state, overwrite=overwrite)
            d["out_obj"] = out
            d["out"] = _np(out)
            d["same_storage"] = (
                initial_state is not None
                and isinstance(out, torch.Tensor)
                and out.data_ptr() == initial_state.data_ptr()
            )
            cap.draws.append(d)
            cap.run.log.add("draw", k, num_samples, d["init_is_none"], bool(overwrite), tdigest(d["out"]))
            return out

        self.state.__dict__["sample"] = sample
        self._installed = True
        return self

    def uninstall(self):
        if self._installed:
            self.state.__dict__.pop("sample", None)
            self._installed = False

    def __enter__(self):
        return self.install()

    def __exit__(self, *a):
        self.uninstall()
        return False
