"""Randomness seam.

Replaces the torch entry points QuCumber draws randomness from
(torch.bernoulli, randn, randperm, randint; torch.distributions.Bernoulli.sample
reaches torch.bernoulli through the module attribute, so it is covered too)
for the duration of a run.  Every outcome is served from the current op's
PCG64(sub-seed), logged, and offered to listeners (the reference models).

Other entry points (torch.rand, rand_like, Tensor.bernoulli[_]) are served from
the same stream and logged as kind "other:*" so that a refactored sampler stays
deterministic; oracles that need the exact draw structure then declare
themselves inconclusive instead of raising an alarm.
"""
import numpy as np
import torch

from ..core import tdigest

class NanProbability(RuntimeError):
    """What torch.bernoulli itself raises for a probability outside [0,1] (NaN after a
    numerically diverged training step).  Emulated faithfully by the seam; marked so that it is
    attributed to the run's numerics, not to the harness and not to the property."""

    qsim_emulates_torch = True


_PATCHED = ("bernoulli", "randn", "randperm", "randint", "rand", "rand_like")


class RngSeam:
    def __init__(self, run):
        self.run = run
        self.gen = np.random.Generator(np.random.PCG64(0))
        self.mode = "honest"
        self.rare = 0.0
        self.perm_mode = "honest"
        self.randint_mode = "honest"
        self.listeners = []
        self._orig = {}
        self._orig_tensor = {}
        self.installed = False
        self.quiet = False  # when True: serve but do not log (law-check bulk draws)
        self._gstate = None

    # ------------------------------------------------------------------
    def install(self):
        assert not self.installed
        for name in _PATCHED:
            self._orig[name] = getattr(torch, name)
        torch.bernoulli = self._bernoulli
        torch.randn = self._randn
        torch.randperm = self._randperm
        torch.randint = self._randint
        torch.rand = self._rand
        torch.rand_like = self._rand_like
        for name in ("bernoulli", "bernoulli_"):
            self._orig_tensor[name] = getattr(torch.Tensor, name)
        seam = self

        def t_bernoulli(tensor, *a, **k):
            return seam._t_bernoulli(tensor, *a, **k)

        def t_bernoulli_(tensor, *a, **k):
            return seam._t_bernoulli_(tensor, *a, **k)

        torch.Tensor.bernoulli = t_bernoulli
        torch.Tensor.bernoulli_ = t_bernoulli_
        self.installed = True

    def uninstall(self):
        if not self.installed:
            return
        for name, f in self._orig.items():
            setattr(torch, name, f)
        for name, f in self._orig_tensor.items():
            setattr(torch.Tensor, name, f)
        self.installed = False

    def __enter__(self):
        self.install()
        return self

    def __exit__(self, *a):
        self.uninstall()
        return False

    # ------------------------------------------------------------------
    def stream(self, sub, mode="honest", rare=0.0, perm_mode="honest", randint_mode="honest"):
        """Start the outcome stream of one operation."""
        self.gen = np.random.Generator(np.random.PCG64(int(sub) & (2 ** 64 - 1)))
        self.mode = mode
        self.rare = rare
        self.perm_mode = perm_mode
        self.randint_mode = randint_mode

    # global generator watch: the library must not draw outside the seam ----
    def arm_global(self, seed):
        torch.manual_seed(int(seed) & (2 ** 63 - 1))
        self._gstate = tdigest(torch.random.get_rng_state())

    def check_global(self):
        """Returns True iff the global generator was left untouched since arm_global."""
        now = tdigest(torch.random.get_rng_state())
        ok = now == self._gstate
        if not ok:
            self.run.probes["unseamed_rng_draws"] += 1
            self._gstate = now
        return ok

    # ------------------------------------------------------------------
    def _emit(self, kind, *payload, arrays=None):
        if not self.quiet:
            self.run.log.add("rng", kind, *payload)
        for l in self.listeners:
            l(kind, arrays)

    def _draw_bernoulli(self, pa):
        if not np.all((pa >= 0) & (pa <= 1)):  # also catches NaN, like torch does
            raise NanProbability("Expected p_in >= 0 && p_in <= 1 to be true, but got false.")
        u = self.gen.random(pa.shape)
        outcome = u < pa
        if self.mode == "rare" and self.rare > 0.0:
            flip = self.gen.random(pa.shape) < self.rare
            interior = (pa > 0.0) & (pa < 1.0)
            less_likely = pa < 0.5  # the less likely outcome is 1 iff p < 0.5
            forced = flip & interior
            n = int(forced.sum())
            if n:
                outcome = np.where(forced, less_likely, outcome)
                self.run.faults["rare_outcome"] += n
        return outcome.astype(np.float64)

    def _bernoulli(self, input, p=None, *, generator=None, out=None):
        probs = input if p is None else torch.full_like(input, float(p), dtype=torch.double)
        pa = probs.detach().to(dtype=torch.double, device="cpu").numpy().copy()
        outcome = self._draw_bernoulli(pa)
        res = torch.from_numpy(outcome).to(dtype=input.dtype, device=input.device)
        self._emit("bern", tuple(pa.shape), tdigest(pa), tdigest(outcome), arrays=(pa, outcome))
        if out is not None:
            out.copy_(res)
            return out
        return res

    def _t_bernoulli(self, tensor, p=None, *, generator=None):
        probs = tensor if p is None else torch.full_like(tensor, float(p), dtype=torch.double)
        pa = probs.detach().to(dtype=torch.double, device="cpu").numpy().copy()
        outcome = self._draw_bernoulli(pa)
        self._emit("other:Tensor.bernoulli", tuple(pa.shape), tdigest(pa), tdigest(outcome), arrays=(pa, outcome))
        return torch.from_numpy(outcome).to(dtype=tensor.dtype, device=tensor.device)

    def _t_bernoulli_(self, tensor, p=0.5, *, generator=None):
        if isinstance(p, torch.Tensor):
            pa = p.detach().to(dtype=torch.double, device="cpu").expand(tensor.shape).numpy().copy()
        else:
            pa = np.full(tuple(tensor.shape), float(p))
        outcome = self._draw_bernoulli(pa)
        self._emit("other:Tensor.bernoulli_", tuple(pa.shape), tdigest(pa), tdigest(outcome), arrays=(pa, outcome))
        tensor.copy_(torch.from_numpy(outcome).to(dtype=tensor.dtype, device=tensor.device))
        return tensor

    @staticmethod
    def _size(args, kwargs):
        if "size" in kwargs:
            size = kwargs.pop("size")
        elif len(args) == 1 and isinstance(args[0], (tuple, list, torch.Size)):
            size = args[0]
        else:
            size = args
        return tuple(int(s) for s in size)

    def _finish(self, arr, kwargs, default_dtype):
        dtype = kwargs.get("dtype", None) or default_dtype
        device = kwargs.get("device", None)
        t = torch.from_numpy(np.ascontiguousarray(arr)).to(dtype=dtype)
        if device is not None:
            t = t.to(device=device)
        out = kwargs.get("out", None)
        if out is not None:
            out.resize_(t.shape).copy_(t)
            return out
        return t

    def _randn(self, *args, **kwargs):
        size = self._size(args, kwargs)
        arr = self.gen.standard_normal(size)
        self._emit("randn", size, tdigest(arr), arrays=(arr,))
        return self._finish(arr, kwargs, torch.get_default_dtype())

    def _rand(self, *args, **kwargs):
        size = self._size(args, kwargs)
        arr = self.gen.random(size)
        self._emit("other:rand", size, tdigest(arr), arrays=(arr,))
        return self._finish(arr, kwargs, torch.get_default_dtype())

    def _rand_like(self, input, **kwargs):
        arr = self.gen.random(tuple(input.shape))
        self._emit("other:rand_like", tuple(input.shape), tdigest(arr), arrays=(arr,))
        kwargs.setdefault("dtype", input.dtype)
        kwargs.setdefault("device", input.device)
        return self._finish(arr, kwargs, input.dtype)

    def _randperm(self, n, **kwargs):
        n = int(n)
        honest = self.gen.permutation(n)  # always consume, so modes do not shift the stream
        mode = self.perm_mode
        if mode == "identity":
            arr = np.arange(n)
        elif mode == "reverse":
            arr = np.arange(n)[::-1].copy()
        elif mode == "transpose" and n >= 2:
            arr = np.arange(n)
            i, j = int(honest[0]), int(honest[1])
            arr[i], arr[j] = arr[j], arr[i]
        else:
            arr = honest
        if mode != "honest":
            self.run.faults["rare_outcome"] += 1
        arr = arr.astype(np.int64)
        self._emit("randperm", n, tuple(int(x) for x in arr), arrays=(arr,))
        return self._finish(arr, kwargs, torch.int64)

    def _randint(self, *args, **kwargs):
        args = list(args)
        if "high" in kwargs:
            high = kwargs.pop("high")
            low = kwargs.pop("low", args.pop(0) if args and not isinstance(args[0], (tuple, list, torch.Size)) else 0)
        else:
            ints = []
            while args and not isinstance(args[0], (tuple, list, torch.Size)):
                ints.append(args.pop(0))
            if len(ints) == 1:
                low, high = 0, ints[0]
            elif len(ints) == 2:
                low, high = ints
            else:
                raise TypeError("randint(): cannot parse arguments")
        if "size" in kwargs:
            size = kwargs.pop("size")
        elif args:
            size = args.pop(0)
        else:
            raise TypeError("randint(): missing size")
        size = tuple(int(s) for s in size)
        low, high = int(low), int(high)
        if not low < high:
            raise RuntimeError(f"random_ expects 'from' to be less than 'to', but got from={low} >= to={high}")
        honest = self.gen.integers(low, high, size=size)
        if self.randint_mode == "allequal" and honest.size:
            arr = np.full(size, int(honest.flat[0]))
            self.run.faults["rare_outcome"] += 1
        else:
            arr = honest
        arr = arr.astype(np.int64)
        self._emit("randint", low, high, size, tuple(int(x) for x in arr.flat), arrays=(arr,))
        return self._finish(arr, kwargs, torch.int64)
