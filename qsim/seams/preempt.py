"""Pre-emption seam: an asynchronous operator acting between two source lines.

sys.settrace with a local trace function only on frames whose code object is
one of the watched functions (by default NeuralStateBase.fit).  Every `line`
event in such a frame is a pre-emption point.  Two addressing schemes:

  * ("ordinal", n)        - the n-th line event of the run (0-based);
  * ("after", j, d)       - the d-th line event after the j-th protocol event
                            (the witness callbacks call `mark_event()`), which
                            biases landing sites by window instead of by the
                            sheer number of lines.

The action is a callable(site) supplied by the check; it may set a flag,
consume foreign RNGs, jump the clock or raise SimCrash.  Who runs next is
always the simulator's decision: there are no real threads.
"""
import sys


class Preempt:
    def __init__(self, run, codes):
        self.run = run
        self.codes = set(codes)
        self.ordinal = 0  # global line-event ordinal
        self.event_idx = -1  # index of the last protocol event seen
        self.since_event = 0  # line events since that protocol event
        self.actions = []  # list of [addr, fn, fired]
        self.lines_seen = set()
        self._prev = None
        self.active = False

    def at(self, addr, fn):
        self.actions.append([tuple(addr), fn, False])

    def mark_event(self):
        self.event_idx += 1
        self.since_event = 0

    # ------------------------------------------------------------------
    def _global(self, frame, event, arg):
        if frame.f_code in self.codes:
            return self._local
        return None

    def _local(self, frame, event, arg):
        if event != "line":
            return self._local
        n = self.ordinal
        d = self.since_event
        self.ordinal = n + 1
        self.since_event = d + 1
        for act in self.actions:
            if act[2]:
                continue
            addr = act[0]
            if addr[0] == "ordinal":
                hit = addr[1] == n
            else:
                hit = addr[1] == self.event_idx and addr[2] == d
            if hit:
                act[2] = True
                site = f"{frame.f_code.co_name}:{frame.f_lineno}"
                self.lines_seen.add(frame.f_lineno)
                act[1](site)
        return self._local

    def __enter__(self):
        self._prev = sys.gettrace()
        sys.settrace(self._global)
        self.active = True
        return self

    def __exit__(self, *a):
        sys.settrace(self._prev)
        self.active = False
        return False

    def unfired(self):
        return [a[0] for a in self.actions if not a[2]]
