"""Storage seam: an in-memory disk owned by the run.

torch.save / torch.load are wrapped so that str / PathLike locations go to the
SimDisk (the real torch serialiser runs on a SimDisk file object); `open` is
injected as a module global into the evaluator callback modules and `Path` in
the model-saver module is replaced by SimPath, so CSV logs and checkpoint
folders live on the same disk.

Semantics (POSIX file opened "wb"/"a", process crash, no power loss):
  * opening for write truncates at once; each write extends the file;
    nothing is atomic; there is no fsync in the library;
  * the k-th write after arm() may raise OSError(ENOSPC|EIO) after writing a
    prefix of its buffer, or kill the process (SimCrash) after a prefix;
  * after a crash the disk is frozen: what was written stays, text that was
    still buffered in the dead process is dropped (close() during unwinding
    writes nothing).
"""
import errno
import io
import os

from ..core import SimCrash


class SimFile:
    def __init__(self, disk, path, mode):
        self.disk = disk
        self.path = path
        self.mode = mode
        self.closed = False
        self.text = "b" not in mode
        self._buf = []  # text mode: buffered until close/flush like a real TextIOWrapper
        if "w" in mode:
            disk._truncate(path)
        elif "a" in mode:
            disk.files.setdefault(path, bytearray())
        self._pos = len(disk.files.get(path, b""))

    # --- file API used by torch.save / csv ------------------------------
    def write(self, data):
        if self.closed:
            raise ValueError("I/O operation on closed file")
        if self.text:
            self._buf.append(data)
            return len(data)
        self.disk._write(self, bytes(data))
        return len(data)

    def flush(self):
        if self.text and self._buf and not self.disk.frozen:
            data = "".join(self._buf).encode()
            self._buf = []
            self.disk._write(self, data)

    def close(self):
        if self.closed:
            return
        try:
            self.flush()
        finally:
            self.closed = True
        if not self.disk.frozen:
            self.disk.closed_ok.append(self.path)
            self.disk.run.log.add("disk", "close", self.path)

    def tell(self):
        return len(self.disk.files.get(self.path, b""))

    def seek(self, *a):  # torch's writer never seeks on a buffer it detected as write-only
        raise io.UnsupportedOperation("seek")

    def writable(self):
        return True

    def readable(self):
        return False

    def seekable(self):
        return False

    def fileno(self):
        raise io.UnsupportedOperation("fileno")

    def __enter__(self):
        return self

    def __exit__(self, et, ev, tb):
        if et is not None and issubclass(et, SimCrash):
            # the process is dead: nothing buffered reaches the disk
            self.closed = True
            return False
        self.close()
        return False


class SimDisk:
    def __init__(self, run):
        self.run = run
        self.files = {}
        self.dirs = set()
        self.frozen = False
        self.writes = 0  # write ordinal since arm()
        self.total_writes = 0
        self.fault = None
        self.opens = []  # (path, mode) in order
        self.completed = []  # paths whose write handle was closed normally, in order
        self.closed_ok = []  # every write handle (binary or text) closed normally, in order
        self._orig = {}
        self._mods = []

    # ------------------------------------------------------------------
    def arm(self, fault=None):
        """fault: {kind: enospc|eio|crash_write, at: k, frac: 0..1}"""
        self.writes = 0
        self.fault = dict(fault) if fault else None

    def _truncate(self, path):
        if self.frozen:
            return
        self.files[path] = bytearray()
        self.run.log.add("disk", "trunc", path)

    def _write(self, fobj, data):
        if self.frozen:
            return
        k = self.writes
        self.writes += 1
        self.total_writes += 1
        f = self.fault
        if f is not None and f.get("at") == k:
            n = int(len(data) * float(f.get("frac", 0.5)))
            self.files[fobj.path].extend(data[:n])
            self.fault = None
            site = f"{os.path.basename(fobj.path)}#w{k}"
            self.run.log.add("disk", f["kind"], fobj.path, k, n, len(data))
            self.run.fault(f["kind"], site)
            if f["kind"] == "crash_write":
                self.frozen = True
                raise SimCrash(f"killed in write {k} of {fobj.path}")
            code = errno.ENOSPC if f["kind"] == "enospc" else errno.EIO
            raise OSError(code, os.strerror(code), fobj.path)
        self.files[fobj.path].extend(data)
        self.run.log.add("disk", "write", fobj.path, k, len(data))

    # ------------------------------------------------------------------
    def open(self, path, mode="r", *a, **kw):
        path = os.fspath(path)
        self.opens.append((path, mode))
        self.run.log.add("disk", "open", path, mode)
        if "r" in mode and "+" not in mode:
            if path not in self.files:
                raise FileNotFoundError(errno.ENOENT, os.strerror(errno.ENOENT), path)
            data = bytes(self.files[path])
            return io.BytesIO(data) if "b" in mode else io.StringIO(data.decode())
        return SimFile(self, path, mode)

    def read(self, path):
        path = os.fspath(path)
        if path not in self.files:
            raise FileNotFoundError(errno.ENOENT, os.strerror(errno.ENOENT), path)
        return bytes(self.files[path])

    def text(self, path):
        return self.read(path).decode()

    # ------------------------------------------------------------------
    def install(self):
        import torch

        import qucumber.callbacks.metric_evaluator as me
        import qucumber.callbacks.model_saver as ms
        import qucumber.callbacks.observable_evaluator as oe

        disk = self
        orig_save, orig_load = torch.save, torch.load
        self._orig = {"save": orig_save, "load": orig_load}

        def save(obj, f, *a, **kw):
            if isinstance(f, (str, os.PathLike)):
                path = os.fspath(f)
                fo = disk.open(path, "wb")
                try:
                    orig_save(obj, fo, *a, **kw)
                except BaseException as exc:
                    fo.closed = True
                    if disk.frozen and not isinstance(exc, SimCrash):
                        # torch's C++ writer re-raises whatever the write callback raised as
                        # RuntimeError; the process is dead all the same
                        raise SimCrash(str(exc)) from exc
                    raise
                fo.close()
                disk.completed.append(path)
                disk.run.log.add("disk", "saved", path, len(disk.files.get(path, b"")))
                return None
            return orig_save(obj, f, *a, **kw)

        def load(f, *a, **kw):
            if isinstance(f, (str, os.PathLike)):
                data = disk.read(f)
                disk.run.log.add("disk", "load", os.fspath(f), len(data))
                return orig_load(io.BytesIO(data), *a, **kw)
            return orig_load(f, *a, **kw)

        torch.save = save
        torch.load = load
        for mod in (me, oe):
            self._mods.append((mod, "open", mod.__dict__.get("open", None)))
            mod.open = disk.open
        self._mods.append((ms, "Path", ms.Path))
        ms.Path = lambda p: SimPath(disk, p)
        return self

    def uninstall(self):
        import torch

        if self._orig:
            torch.save = self._orig["save"]
            torch.load = self._orig["load"]
            self._orig = {}
        for mod, name, old in self._mods:
            if old is None:
                mod.__dict__.pop(name, None)
            else:
                setattr(mod, name, old)
        self._mods = []

    def __enter__(self):
        return self.install()

    def __exit__(self, *a):
        self.uninstall()
        return False


class SimPath:
    def __init__(self, disk, p):
        self.disk = disk
        self.p = os.fspath(p)

    def mkdir(self, parents=False, exist_ok=False):
        if self.p in self.disk.dirs and not exist_ok:
            raise FileExistsError(self.p)
        self.disk.dirs.add(self.p)
        self.disk.run.log.add("disk", "mkdir", self.p)

    def resolve(self):
        p = self.p if self.p.startswith("/") else "/sim/cwd/" + self.p
        return SimPath(self.disk, os.path.normpath(p))

    def __fspath__(self):
        return self.p

    def __str__(self):
        return self.p

    def __truediv__(self, other):
        return SimPath(self.disk, os.path.join(self.p, os.fspath(other)))


class RealDisk:
    """Fault-free stratum on a REAL temporary directory: torch.save/torch.load are
    still intercepted (to log and to map the plan's paths into the directory) but the
    serialiser works on real file names, so OS-level behaviour of files (memory
    mapping, truncation of a file another tensor is still backed by, ...) is real.
    The directory is created on install and removed on uninstall."""

    def __init__(self, run):
        self.run = run
        self.opens = []
        self.completed = []
        self.closed_ok = []
        self.frozen = False
        self.total_writes = 0
        self.root = None
        self._orig = {}

    def arm(self, fault=None):
        pass  # no faults in this stratum

    def real(self, path):
        return os.path.join(self.root, os.fspath(path).lstrip("/"))

    def install(self):
        import tempfile

        import torch

        self.root = tempfile.mkdtemp(prefix="qsim-realdisk-")
        disk = self
        orig_save, orig_load = torch.save, torch.load
        self._orig = {"save": orig_save, "load": orig_load}

        def save(obj, f, *a, **kw):
            if isinstance(f, (str, os.PathLike)):
                rp = disk.real(f)
                os.makedirs(os.path.dirname(rp), exist_ok=True)
                disk.opens.append((os.fspath(f), "wb"))
                disk.run.log.add("disk", "open", os.fspath(f), "wb")
                orig_save(obj, rp, *a, **kw)
                disk.completed.append(os.fspath(f))
                disk.total_writes += 1
                disk.run.log.add("disk", "saved", os.fspath(f), os.path.getsize(rp))
                return None
            return orig_save(obj, f, *a, **kw)

        def load(f, *a, **kw):
            if isinstance(f, (str, os.PathLike)):
                disk.run.log.add("disk", "load", os.fspath(f))
                return orig_load(disk.real(f), *a, **kw)
            return orig_load(f, *a, **kw)

        torch.save = save
        torch.load = load
        return self

    def uninstall(self):
        import shutil

        import torch

        if self._orig:
            torch.save = self._orig["save"]
            torch.load = self._orig["load"]
            self._orig = {}
        if self.root:
            shutil.rmtree(self.root, ignore_errors=True)
            self.root = None

    def __enter__(self):
        return self.install()

    def __exit__(self, *a):
        self.uninstall()
        return False
