"""Clock seam: qucumber.callbacks.timer reads `time.time()`; replace the module
global `time` there by a SimClock.  Time advances by plan-decided increments
per read and may jump (forward by hours, backward)."""
import random


class SimClock:
    def __init__(self, run, seed, jumpy=False):
        self.run = run
        self.rng = random.Random(seed)
        self.now = 1.7e9 + self.rng.random() * 1e6
        self.start = self.now
        self.jumpy = jumpy
        self.reads = 0
        self._mod = None
        self._orig = None

    # the library calls time.time()
    def time(self):
        self.reads += 1
        self.now += self.rng.random() * 3.0
        if self.jumpy and self.rng.random() < 0.3:
            self.jump(self.rng.choice([3600.0 * 5, -7200.0, 86400.0, -1.0]))
        self.run.log.add("clock", "read", self.reads)
        return self.now

    def jump(self, delta):
        self.now += delta
        self.run.fault("clock_jump")
        self.run.log.add("clock", "jump", delta)

    def elapsed(self):
        return self.now - self.start

    def __enter__(self):
        import qucumber.callbacks.timer as tm

        self._mod = tm
        self._orig = tm.time
        tm.time = self
        return self

    def __exit__(self, *a):
        self._mod.time = self._orig
        return False
