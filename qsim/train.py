"""One simulated training run: fit() driven under the seams, with witness
callbacks, stop requests through callbacks or asynchronously between source
lines, crash injection, and classification of whatever escapes."""
import contextlib
import io
import warnings

from .core import SimCrash, state_digest
from .seams.preempt import Preempt
from .world import fit_code, make_witness


class UserAbort(Exception):
    """Raised by a witness callback on the simulator's request: user code failing / interrupting a run."""


def run_fit(
    run,
    state,
    tcfg,
    data_in,
    bases,
    *,
    n_wit=1,
    flavours=None,
    faults=(),
    cbs_before=(),
    cbs_between=(),
    cbs_after=(),
    handler=None,
    optimizer=None,
    optimizer_args=None,
    scheduler=None,
    scheduler_args=None,
    async_actions=(),
    snapshot=True,
    extra_codes=(),
    container="list",
    prior=None,
    replace=(),
    returns=None,
):
    """tcfg: {epochs, starting_epoch, pos_bs, neg_bs, k, lr, time}

    Callback list order: cbs_before + [witness 0] + cbs_between + [witness 1..] + cbs_after.
    faults: stop_cb{event,cb} | stop_async{addr} | stop_preset | crash_line{addr}
    async_actions: extra (addr, fn(site)) pairs for the pre-emption seam.
    Returns info dict."""
    pre = Preempt(run, [fit_code(), *extra_codes])
    cb_faults = [dict(f, fired=False) for f in faults if f["kind"] == "stop_cb"]
    raise_faults = [dict(f, fired=False) for f in faults if f["kind"] == "raise_cb"]
    cur = {"j": -1}

    def on_event(kind, args, idx, nn_state, seq):
        if idx == 0:
            cur["j"] += 1
        j = cur["j"]
        for f in raise_faults:
            if not f["fired"] and f["event"] == j and f["cb"] == idx:
                f["fired"] = True
                run.log.add("ABORT", "cb", kind, tuple(int(a) for a in args), idx)
                run.fault("raise_cb", f"{kind}/cb{idx}")
                raise UserAbort(f"user code failed in {kind}")
        for f in cb_faults:
            if not f["fired"] and f["event"] == j and f["cb"] == idx:
                f["fired"] = True
                nn_state.stop_training = True
                run.log.add("STOP", "cb", kind, tuple(int(a) for a in args), idx)
                run.fault("stop_cb", f"{kind}/cb{idx}")
        if handler is not None:
            handler(kind, args, idx, nn_state, seq)

    flavours = list(flavours or [])
    while len(flavours) < n_wit:
        flavours.append("class")
    retire_flags = [{"v": False} for _ in range(n_wit)]
    wits = [
        make_witness(run, i, handler=on_event, preempt=pre, snapshot=snapshot, flavour=flavours[i], retired=retire_flags[i],
                     ret=(returns[i] if returns and i < len(returns) else None))
        for i in range(n_wit)
    ]
    callbacks = list(cbs_before) + wits[:1] + list(cbs_between) + wits[1:] + list(cbs_after)
    if prior is not None and prior.get("container_obj") is not None:
        # the caller re-uses ITS container object from the previous run and replaces some entries in place
        cobj = prior["container_obj"]
        old_list = prior["callbacks"]
        new_list = []
        for pos_, old_cb in enumerate(old_list):
            wi = next((i for i, w in enumerate(prior["witnesses"]) if w is old_cb), None)
            if wi is not None and wi in replace:
                prior["retire_flags"][wi]["v"] = True
                cobj[pos_] = wits[wi]
                new_list.append(wits[wi])
            else:
                new_list.append(old_cb)  # (an unchanged witness keeps reporting through the earlier run's handler)
        callbacks = cobj
        callbacks_list = new_list
    elif container == "tuple":
        callbacks_list = callbacks
        callbacks = tuple(callbacks)
    elif container == "iterator":
        callbacks_list = callbacks
        callbacks = (cb for cb in callbacks)  # a one-shot iterable is a legal way to hand over callbacks
    elif container == "CallbackList":
        from qucumber.callbacks import CallbackList

        callbacks_list = callbacks
        callbacks = CallbackList(callbacks)
    else:
        callbacks_list = callbacks

    preset = False
    for f in faults:
        if f["kind"] == "stop_preset":
            state.stop_training = True
            preset = True
            run.fault("stop_preset")
        elif f["kind"] == "stop_async":

            def act(site, _f=f):
                state.stop_training = True
                run.log.add("STOP", "async", site)
                run.fault("stop_async", site)

            pre.at(f["addr"], act)
        elif f["kind"] == "crash_line":

            def crash(site, _f=f):
                run.log.add("CRASH", "line", site)
                run.fault("crash_line", site)
                raise SimCrash(site)

            pre.at(f["addr"], crash)
    for addr, fn in async_actions:
        pre.at(addr, fn)

    if tcfg.get("arg_types") == "numpy":
        import numpy as _np

        tcfg = dict(tcfg)
        tcfg["epochs"] = _np.int64(tcfg["epochs"])
        tcfg["pos_bs"] = _np.int64(tcfg["pos_bs"])
        tcfg["k"] = _np.int32(tcfg["k"])
        if tcfg.get("neg_bs") is not None:
            tcfg["neg_bs"] = _np.int32(tcfg["neg_bs"])
    kwargs = dict(
        epochs=tcfg["epochs"],
        pos_batch_size=tcfg["pos_bs"],
        neg_batch_size=tcfg.get("neg_bs"),
        k=tcfg["k"],
        lr=tcfg["lr"],
        progbar=False,
        starting_epoch=tcfg.get("starting_epoch", 1),
        time=bool(tcfg.get("time", False)),
        callbacks=callbacks,
    )
    if bases is not None:
        kwargs["input_bases"] = bases
    if optimizer is not None:
        kwargs["optimizer"] = optimizer
    if optimizer_args is not None:
        kwargs["optimizer_args"] = optimizer_args
    if scheduler is not None:
        kwargs["scheduler"] = scheduler
        kwargs["scheduler_args"] = scheduler_args or {}

    info = {"raised": None, "crashed": False, "preset": preset, "callbacks": callbacks_list, "witnesses": wits,
            "container_obj": callbacks if container == "CallbackList" or (prior is not None and prior.get("container_obj") is not None) else None,
            "retire_flags": retire_flags}
    out = io.StringIO()
    run.log.add("op", "fit", tcfg.get("starting_epoch", 1), tcfg["epochs"])
    info["digest_before"] = state_digest(state)
    try:
        with contextlib.redirect_stdout(out), warnings.catch_warnings():
            warnings.simplefilter("ignore")
            with pre:
                if tcfg.get("call_form") == "positional" and "optimizer_args" not in kwargs and "scheduler" not in kwargs:
                    # the documented positional order: data, epochs, pos_batch_size, neg_batch_size, k, lr,
                    # [input_bases,] progbar, starting_epoch, time, callbacks[, optimizer]
                    pos = [data_in, kwargs["epochs"], kwargs["pos_batch_size"], kwargs["neg_batch_size"], kwargs["k"], kwargs["lr"]]
                    if type(state).__name__ != "PositiveWaveFunction":
                        pos.append(kwargs.get("input_bases"))
                    pos += [False, kwargs["starting_epoch"], kwargs["time"], kwargs["callbacks"]]
                    if "optimizer" in kwargs:
                        pos.append(kwargs["optimizer"])
                    state.fit(*pos)
                else:
                    state.fit(data_in, **kwargs)
    except SimCrash:
        info["crashed"] = True
    except Exception as exc:  # noqa: BLE001
        info["raised"] = exc
    info["flag_after"] = bool(state.stop_training)
    info["digest_after"] = state_digest(state)
    info["stdout"] = out.getvalue()
    info["preempt"] = pre
    info["lines"] = pre.ordinal
    run.sim["fit_lines"] += pre.ordinal
    run.log.add("op", "fit-return", info["flag_after"], info["crashed"], type(info["raised"]).__name__)
    return info
