"""Sensitivity / false-alarm self-test.

./selftest/mutants.py [PROP ...] [--only ID] [--tier quick] [--jobs 1]

For each entry of selftest/mutants/*.json:
  {id, property, file, old, new, expect: "violation"|"clean", note}
copy /repo/qucumber to a scratch directory outside /repo and /verif, apply the
textual replacement (must match exactly once unless "count" is given), run the
owning property's check with QSIM_REPO=<scratch>, compare the exit code with
the expectation (violation -> 1, clean -> 0), remove the scratch copy.
Evidence of these runs goes to a scratch directory, never to /verif/evidence.
"""
import argparse
import glob
import json
import os
import shutil
import subprocess
import sys
import tempfile
import time

HERE = os.path.dirname(os.path.abspath(__file__))
VERIF = os.path.dirname(HERE)
REPO = os.environ.get("QSIM_REPO", "/repo")


def load(props, only):
    out = []
    for path in sorted(glob.glob(os.path.join(HERE, "mutants", "*.json"))):
        with open(path) as f:
            for m in json.load(f):
                if props and m["property"] not in props:
                    continue
                if only and m["id"] not in only:
                    continue
                out.append(m)
    return out


def apply(scratch, m):
    edits = m.get("edits") or [{"file": m["file"], "old": m["old"], "new": m["new"], "count": m.get("count", 1)}]
    for e in edits:
        p = os.path.join(scratch, e["file"])
        s = open(p).read()
        n = s.count(e["old"])
        want = e.get("count", 1)
        if n != want:
            raise SystemExit(f"mutant {m['id']}: pattern occurs {n} times in {e['file']}, expected {want}")
        s = s.replace(e["old"], e["new"])
        open(p, "w").write(s)


def run_one(m, tier, runs=None):
    scratch = tempfile.mkdtemp(prefix="qsim-mut-")
    try:
        shutil.copytree(os.path.join(REPO, "qucumber"), os.path.join(scratch, "qucumber"))
        apply(scratch, m)
        env = dict(os.environ)
        env["QSIM_REPO"] = scratch
        env["QSIM_EVIDENCE_DIR"] = os.path.join(scratch, "evidence")
        env["QSIM_REPLAY_DIR"] = os.path.join(scratch, "replays")
        cmd = [os.path.join(VERIF, "check"), m["property"], "--tier", tier]
        if runs:
            cmd += ["--runs", str(runs)]
        t0 = time.time()
        p = subprocess.run(cmd, capture_output=True, text=True, env=env, cwd=VERIF, timeout=3600)
        dt = time.time() - t0
        rules = [ln.strip() for ln in p.stdout.splitlines() if ln.strip().startswith("rule=")]
        code = p.returncode
        if code == 1 and "VIOLATION property=" not in p.stdout:
            code = 2  # the checker itself failed to run: not a verdict
        return code, dt, rules, p.stdout[-2000:] + p.stderr[-2000:]
    finally:
        shutil.rmtree(scratch, ignore_errors=True)


def main():
    ap = argparse.ArgumentParser()
    ap.add_argument("props", nargs="*")
    ap.add_argument("--only", action="append")
    ap.add_argument("--tier", default="quick")
    ap.add_argument("--runs", type=int)
    ap.add_argument("-v", action="store_true")
    a = ap.parse_args()
    ms = load([p.upper() for p in a.props], a.only)
    bad = 0
    for m in ms:
        code, dt, rules, tail = run_one(m, a.tier, a.runs)
        want = 1 if m["expect"] == "violation" else 0
        ok = code == want
        bad += not ok
        r = "; ".join(x.split(" runs=")[0] for x in rules[:4])
        print(f"{'ok  ' if ok else 'FAIL'} {m['property']} {m['id']:<40} expect={m['expect']:<9} exit={code} {dt:5.1f}s {r}")
        if (not ok or a.v) and tail:
            print("     " + tail.replace("\n", "\n     "))
        sys.stdout.flush()
    print(f"{len(ms) - bad}/{len(ms)} as expected")
    return 1 if bad else 0


if __name__ == "__main__":
    sys.exit(main())
