#!/venv/bin/python
"""Determinism self-test.

For every claimed property run the first N seeds (default 500) of the quick
tier four times, each in fresh interpreters:
   leg A: 16 workers, PYTHONHASHSEED=0
   leg B: 16 workers, PYTHONHASHSEED=0          (same configuration, again)
   leg C:  3 workers, PYTHONHASHSEED=987654321  (other worker count, other hash seed)
   leg D:  1 worker,  PYTHONHASHSEED=random     (subset of N/4 seeds)
and diff the run digests.  On a mismatch the full event logs of the run are
dumped under both configurations and the first differing entry is printed.
Exit 0 iff every digest of every leg agrees.
"""
import json
import os
import subprocess
import sys
import tempfile

HERE = os.path.dirname(os.path.abspath(__file__))
VERIF = os.path.dirname(HERE)
PROPS = ["C05", "C06", "C07", "C11", "C12", "C13", "C14", "C17", "C18", "C20"]
LEGS = [
    ("A", {"QSIM_WORKERS": "16", "PYTHONHASHSEED": "0"}, 1.0),
    ("B", {"QSIM_WORKERS": "16", "PYTHONHASHSEED": "0"}, 1.0),
    ("C", {"QSIM_WORKERS": "3", "PYTHONHASHSEED": "987654321"}, 1.0),
    ("D", {"QSIM_WORKERS": "1", "PYTHONHASHSEED": "random"}, 0.25),
]


def run_leg(prop, n, envx, out):
    env = dict(os.environ)
    env.update(envx)
    env["PYTHONDONTWRITEBYTECODE"] = "1"
    p = subprocess.run(
        ["/venv/bin/python", "-B", os.path.join(VERIF, "qsim", "cli.py"), prop, "--digests", str(n), "--out", out],
        env=env, cwd=VERIF, capture_output=True, text=True, timeout=3600,
    )
    if p.returncode != 0:
        print(p.stdout[-2000:], p.stderr[-2000:])
        raise SystemExit(f"{prop}: digest dump failed (exit {p.returncode})")
    return json.load(open(out))["digests"]


def dump_log(prop, i, envx):
    env = dict(os.environ)
    env.update(envx)
    env["PYTHONDONTWRITEBYTECODE"] = "1"
    p = subprocess.run(
        ["/venv/bin/python", "-B", os.path.join(VERIF, "qsim", "cli.py"), prop, "--dump-log", str(i)],
        env=env, cwd=VERIF, capture_output=True, text=True, timeout=600,
    )
    return p.stdout.splitlines()


def main():
    props = [a.upper() for a in sys.argv[1:] if not a.startswith("-")] or PROPS
    n = int(os.environ.get("QSIM_DET_N", "500"))
    bad = 0
    summary = {}
    with tempfile.TemporaryDirectory(prefix="qsim-det-") as tmp:
        for prop in props:
            ref = None
            ref_env = None
            total = 0
            for name, envx, frac in LEGS:
                k = max(8, int(n * frac))
                d = run_leg(prop, k, envx, os.path.join(tmp, f"{prop}-{name}.json"))
                total += len(d)
                if ref is None:
                    ref, ref_env = d, envx
                    continue
                mism = [i for i in d if ref.get(i) != d[i]]
                if mism:
                    bad += len(mism)
                    i = int(sorted(mism, key=int)[0])
                    print(f"MISMATCH {prop} leg {name}: {len(mism)} of {len(d)} digests differ; first run index {i}")
                    la, lb = dump_log(prop, i, ref_env), dump_log(prop, i, envx)
                    for j, (x, y) in enumerate(zip(la, lb)):
                        if x != y:
                            print(f"  first differing log entry #{j}:\n    A: {x[:300]}\n    {name}: {y[:300]}")
                            break
                    else:
                        print(f"  logs have different length: {len(la)} vs {len(lb)}")
            summary[prop] = total
            print(f"{prop}: {total} executions over {len(LEGS)} legs, mismatches so far: {bad}")
            sys.stdout.flush()
    print("determinism self-test:", "OK" if not bad else f"{bad} MISMATCHES", summary)
    return 1 if bad else 0


if __name__ == "__main__":
    sys.exit(main())
