"""C06 - each training step applies exactly the contrastive-divergence update.
Simulated: the shuffle, the negative-phase chains (every Bernoulli draw), the
whole parameter history of a training run, stop requests; the optimizer and
scheduler are real torch objects that record."""
from checks import _train_common as T

PROP = "C06"
QUICK_RUNS = 4800
RULE = (
    "one case = one seeded fit() history (state type, sizes, N<=9(12), pos/neg batch sizes equal or different and "
    "dividing N or not, k in 0..3, lr, 1-3 epochs, SGD / SGD+momentum / Adam, optional StepLR/ExponentialLR, "
    "honest or degenerate shuffle streams, optional stop request); every optimizer step is refined against a "
    "reference trainer; non-trivial = at least 2 optimizer steps or a stop request fired; distinct = distinct "
    "abstract trace (type, N, batch sizes, k, stream modes, optimizer, scheduler, event/stop sequence)"
)
COMPONENTS = {
    "real": ["qucumber (all; fit, compute_batch_gradients, gradient, gibbs_steps, vector_to_grads)", "torch.optim.SGD/Adam (subclassed only to record)", "torch StepLR/ExponentialLR (subclassed only to record)"],
    "stub": ["torch.bernoulli/randperm/randint/randn served from the plan's PCG64 stream"],
}
ASSUMPTIONS = [
    "per-sample positive-phase gradients of complex/mixed states are taken from the library's public gradient() (their mathematical correctness is C03, not claimed)",
    "negative phase and positive-wavefunction positive phase are recomputed with independent numpy formulas; tolerance 1e-9",
]


def generate(seed, tier):
    return T.generate(seed, tier, PROP)


def execute(plan):
    return T.execute(plan, PROP)


shrink = T.shrink
