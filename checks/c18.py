"""C18 - early stopping halts exactly when its documented convergence rule is
met.  Simulated: the monitored quantity is a scripted sensor; two periodic
tasks (evaluator period, stopper period) on the epoch clock; callback order
both ways.  Oracle: reference decision procedure on the recorded history."""
import copy
import math

from qsim import plan as P
from qsim.core import Run

PROP = "C18"
QUICK_RUNS = 9600
RULE = (
    "one case = one training run (<= 25 epochs, one batch per epoch) with a MetricEvaluator or ObservableEvaluator fed by a "
    "scripted sensor (monotone / oscillating / constant / with zeros / converging at a chosen step; scripted variance) and an "
    "EarlyStopping or VarianceBasedEarlyStopping callback (period 1..4, patience 1..5, three criteria, tolerance 0..inf), "
    "evaluator before or after the stopper in the callback list; the epoch at which training stops is compared with a "
    "reference decision procedure run on the evaluations the witness recorded; non-trivial = the stopper was consulted at "
    "least twice; distinct = distinct abstract trace (evaluator kind, periods, patience, criterion, tolerance class, order, "
    "stop epoch, number of evaluations)"
)
COMPONENTS = {
    "real": ["qucumber.callbacks.EarlyStopping / VarianceBasedEarlyStopping / MetricEvaluator / ObservableEvaluator", "System.statistics (observable evaluator)", "fit loop and stop handling"],
    "stub": ["monitored metric / observable values (scripted sensor)", "torch RNG entry points (seeded stream)"],
}
ASSUMPTIONS = [
    "a check whose relative criterion has a zero reference value, or whose variance criterion has a zero reference variance, is unspecified (division by zero) and is not judged; the run is judged up to that check",
    "'the evaluation p evaluations earlier' is evaluator.past_values[-1-p] at the moment the stopper runs (so callback order matters and is part of the history)",
]


def gen_script(r, n):
    kind = r.choice(["monotone", "oscillating", "constant", "zeros", "converging", "walk"])
    if kind == "monotone":
        a, b, q = r.uniform(-2, 2), r.uniform(0.5, 3), r.choice([0.5, 0.8, 0.95])
        vals = [a + b * q ** t for t in range(n)]
    elif kind == "oscillating":
        a, b = r.uniform(-1, 1), r.uniform(0.1, 2)
        per = r.choice([2, 3, 4])
        vals = [a + b * (1 if (t % per) == 0 else -1) * (0.9 ** t if r.random() < 0.5 else 1.0) for t in range(n)]
    elif kind == "constant":
        c = r.choice([0.0, 1.0, -2.5, 1e-3])
        vals = [c for _ in range(n)]
    elif kind == "zeros":
        vals = [r.choice([0.0, 0.0, 1.0, -1.0, 0.5]) for _ in range(n)]
    elif kind == "converging":
        at = r.randint(1, max(1, n - 1))
        c = r.uniform(-2, 2)
        vals = [c + (r.uniform(1, 3) * (1 if t % 2 else -1) if t < at else 0.0) for t in range(n)]
    else:
        x = r.uniform(-1, 1)
        vals = []
        for _ in range(n):
            x += r.uniform(-0.5, 0.5)
            vals.append(x)
    spreads = [r.choice([0.0, 0.25, 0.5, 1.0, 2.0]) if r.random() < 0.3 else r.choice([0.5, 1.0]) for _ in range(n)]
    return kind, [float(v) for v in vals], spreads


def generate(seed, tier):
    r = P.rng_for(seed)
    epochs = r.randint(2, 25 if tier == "thorough" else 18)
    evk = r.choice(["metric", "observable"])
    crit = r.choice(["relative", "absolute", "variance"])
    klass = "EarlyStopping"
    if crit == "variance" and r.random() < 0.4:
        klass = "VarianceBased"
    runs = [{"epochs": epochs, "starting_epoch": 1}]
    if r.random() < 0.15:
        runs[0]["external_stop"] = r.randint(1, epochs)
    if r.random() < 0.25:
        e2 = r.randint(2, 12)
        if r.random() < 0.5:
            runs.append({"epochs": e2, "starting_epoch": 1, "clear": r.random() < 0.7})
        else:
            runs.append({"epochs": epochs + e2, "starting_epoch": epochs + 1, "clear": r.random() < 0.4})
    kind, vals, spreads = gen_script(r, epochs + 16)
    unit = r.choice([1.0, 1.0, 1.0, 1e-6, 1e-17, 1e9])  # the monitored quantity may live in any units
    vals = [v * unit for v in vals]
    spreads = [sp * unit for sp in spreads]
    scale = max(1e-300, max(abs(v) for v in vals))
    if crit == "absolute":
        tol = r.choice([0.0, 1e-6 * scale, 1e-3 * scale, 0.05 * scale, 0.5 * scale, 2.0 * scale, float("inf")])
    else:  # relative / variance-scaled deviations are dimensionless
        tol = r.choice([0.0, 1e-6, 1e-3, 0.05, 0.5, 1.0, 10.0, float("inf")])
    return {
        "property": PROP,
        "run_seed": seed,
        "sub": P.s64(r),
        "config": {
            "state": {"type": r.choice(["positive", "positive", "complex"]), "nv": 2, "nh": 1, "scale": 0.1, "pseed": P.s64(r)},
            "epochs": epochs,
            "runs": runs,
            "evaluator": evk,
            "ev_period": r.choice([1, 1, 2, 3, 4]),
            "es_period": r.choice([1, 1, 2, 3, 4]),
            "patience": r.randint(1, 5),
            "tolerance": tol,
            "criterion": crit,
            # the constructor accepts the name case- and whitespace-insensitively
            "criterion_spelling": r.choice(["plain", "plain", "plain", "Title", "UPPER", " padded "]),
            # the deprecated class takes a variance_name that is documented as ignored
            "variance_name": r.choice([None, "variance", "std_error", "num_samples", "mean", "whatever"]),
            "vb_positional": r.random() < 0.5,
            "klass": klass,
            "order": r.choice(["eval_first", "eval_first", "stop_first"]),
            "script_kind": kind,
            "values": vals,
            "spreads": spreads,
            "extra_metric": r.random() < 0.3,
            # what the metric callable returns
            "value_type": r.choice(["float", "float", "np_float", "tensor0d", "np0d"]),
        },
    }


def execute(plan):
    import warnings

    import numpy as np
    import torch

    from qsim.models import protocol
    from qsim.seams.rng import RngSeam
    from qsim.train import run_fit
    from qsim.world import build_data, build_state

    run = Run(plan)
    c = plan["config"]
    rng = RngSeam(run)
    from qucumber.callbacks import EarlyStopping, MetricEvaluator, ObservableEvaluator, VarianceBasedEarlyStopping
    from qucumber.observables import ObservableBase

    vals, spreads = c["values"], c["spreads"]
    H = []  # witness record of evaluations: (epoch, mean, variance)
    idx = {"t": 0}
    consulted = []  # (epoch, len(H) at that moment)
    cur = {"epoch": None}

    class Sensor(ObservableBase):
        def __init__(self):
            self.name = "Sensor"
            self.symbol = "S"

        def apply(self, nn_state, samples):
            t = min(idx["t"], len(vals) - 1)
            n = samples.shape[0]
            sign = torch.tensor([1.0 if i % 2 == 0 else -1.0 for i in range(n)], dtype=torch.double)
            return vals[t] + spreads[t] * sign

    def metric(nn_state, **kw):
        t = min(idx["t"], len(vals) - 1)
        idx["t"] += 1
        H.append((cur["epoch"], vals[t], None))
        vt = c.get("value_type", "float")
        if vt == "np_float":
            return np.float64(vals[t])
        if vt == "tensor0d":
            return torch.tensor(vals[t], dtype=torch.double)
        if vt == "np0d":
            return np.array(vals[t])
        return vals[t]

    with rng:
        rng.stream(plan["sub"])
        state = build_state(c["state"])
        dcfg = {"N": 2, "nv": 2, "dseed": plan["sub"], "form": "tensor", "basis_mode": "allZ"}
        data_in, _, bases = build_data(dcfg, with_bases=c["state"]["type"] != "positive")
        rng.arm_global(plan["sub"])
        construct_error = None
        try:
            with warnings.catch_warnings():
                warnings.simplefilter("ignore")
                if c["evaluator"] == "metric":
                    metrics = {"m": metric}
                    if c.get("extra_metric"):
                        metrics = {"other": lambda s, **kw: 42.0, "m": metric}
                    ev = MetricEvaluator(c["ev_period"], metrics)
                    qname = "m"
                else:
                    ev = ObservableEvaluator(c["ev_period"], [Sensor()], num_samples=4, num_chains=2, burn_in=1, steps=1)
                    qname = "Sensor"
                    orig_stats = ev.system.statistics

                    def stats(nn_state, **kw):
                        out = orig_stats(nn_state, **kw)
                        idx["t"] += 1
                        H.append((cur["epoch"], float(out["Sensor"]["mean"]), float(out["Sensor"]["variance"])))
                        return out

                    ev.system.statistics = stats
                try:
                    if c["klass"] == "VarianceBased":
                        vn = c.get("variance_name", "ignored")
                        if c.get("vb_positional", True):
                            es = VarianceBasedEarlyStopping(c["es_period"], c["tolerance"], c["patience"], ev, qname, vn)
                        else:
                            es = VarianceBasedEarlyStopping(period=c["es_period"], tolerance=c["tolerance"], patience=c["patience"], evaluator_callback=ev, quantity_name=qname, variance_name=vn)
                    else:
                        sp = c.get("criterion_spelling", "plain")
                        cname = {"plain": c["criterion"], "Title": c["criterion"].title(), "UPPER": c["criterion"].upper(), " padded ": "  " + c["criterion"] + " "}[sp]
                        es = EarlyStopping(c["es_period"], c["tolerance"], c["patience"], ev, qname, criterion=cname)
                except TypeError as exc:
                    construct_error = exc
                    es = None
        except Exception as exc:  # noqa: BLE001
            run.lib_exception(exc, "constructing evaluator / stopper")
            run.trace = ["construct-raised"]
            return run.result()

        want_refused = c["criterion"] == "variance" and c["evaluator"] == "metric"
        trace = [c["evaluator"], c["criterion"], c["klass"], c["ev_period"], c["es_period"], c["patience"], c["order"], c["script_kind"]]
        if want_refused:
            run.require(construct_error is not None, "18-refuse", "variance criterion was accepted for a plain MetricEvaluator", klass=c["klass"])
            run.trace = trace + ["refused" if construct_error is not None else "accepted"]
            run.nontrivial = False
            return run.result()
        if construct_error is not None:
            run.violate("18-refuse", f"constructor raised TypeError for a legal combination: {construct_error}", klass=c["klass"], criterion=c["criterion"])
            run.trace = trace + ["ctor-typeerror"]
            return run.result()

        # the stopper is observed, not replaced: wrap on the instance to learn when it is consulted
        orig_on_epoch_end = es.on_epoch_end

        def es_epoch_end(nn_state, epoch):
            if epoch % c["es_period"] == 0:
                consulted.append((epoch, len(H)))
            return orig_on_epoch_end(nn_state, epoch)

        es.on_epoch_end = es_epoch_end

        def handler(kind, args, i, nn_state, seq):
            if kind == "ES":
                cur["epoch"] = args[0]

        pair = [ev, es] if c["order"] == "eval_first" else [es, ev]
        p = c["patience"]
        tol = c["tolerance"]
        crit = c["criterion"]
        detail = dict(patience=p, criterion=crit, evaluator=c["evaluator"], order=c["order"], ev_period=c["ev_period"], es_period=c["es_period"], klass=c["klass"])
        runs = c.get("runs") or [{"epochs": c["epochs"], "starting_epoch": 1}]
        h0 = 0  # evaluations before this index were cleared from the evaluator
        outcomes = []
        total_ees = 0
        for ri, rr in enumerate(runs):
            if ri > 0:
                state.stop_training = False  # the user re-arms training
                if rr.get("clear"):
                    ev.clear_history()
                    h0 = len(H)
            log_start = len(run.log.entries)
            c0 = len(consulted)
            hstart = len(H)
            tc = {"epochs": rr["epochs"], "starting_epoch": rr.get("starting_epoch", 1), "pos_bs": 2, "neg_bs": None, "k": 1, "lr": 0.01, "time": False}
            faults = []
            e_ext = rr.get("external_stop")
            if e_ext is not None:
                # another stop source: the witness (listed BEFORE evaluator and stopper) requests a stop at the end of epoch e_ext
                faults.append({"kind": "stop_cb", "event": 4 * (e_ext - tc["starting_epoch"] + 1), "cb": 0})
            with warnings.catch_warnings():
                warnings.simplefilter("ignore")
                info = run_fit(run, state, tc, data_in, bases, n_wit=1, handler=handler, cbs_between=pair, snapshot=False, faults=faults)
            items, _ = protocol.extract(run, 1, frm=log_start)
            ees = [it[2][0] for it in items if it[0] == "ev" and it[1] == "EE"]
            total_ees += len(ees)
            last_epoch_run = ees[-1] if ees else None
            ext_fired = any(it[0] == "stop" for it in items)
            # ---- reference decision procedure on the recorded history ------------------
            ref_stop = None
            unspecified_at = None
            for epoch, nH_abs in consulted[c0:]:
                nH = nH_abs - h0
                if nH <= p:
                    continue
                curv = H[nH_abs - 1]
                refv = H[nH_abs - 1 - p]
                if crit == "relative":
                    if refv[1] == 0:
                        # division by zero: the deviation is infinite or not a number, never "below the tolerance";
                        # the library may raise here, but it must not stop here
                        unspecified_at = epoch if unspecified_at is None else unspecified_at
                        continue
                    dev = abs((refv[1] - curv[1]) / refv[1])
                elif crit == "absolute":
                    dev = abs(refv[1] - curv[1])
                else:
                    if refv[2] is None or not (refv[2] > 0):
                        unspecified_at = epoch if unspecified_at is None else unspecified_at
                        continue
                    dev = abs(refv[1] - curv[1]) / math.sqrt(refv[2])
                if dev < tol:
                    ref_stop = epoch
                    break
            d2 = dict(detail, run=ri, cleared=bool(rr.get("clear")), external_stop=e_ext)
            raised = info["raised"]
            if unspecified_at is not None:
                run.probes["unspecified_zero_denominator"] += 1
                if raised is not None and type(raised).__name__ in ("ZeroDivisionError", "FloatingPointError") and (ref_stop is None or ref_stop > unspecified_at):
                    # the library refused to divide by zero at that check: accepted, nothing after it is judged
                    outcomes.append("unspecified-raised")
                    break
            if raised is not None:
                run.lib_exception(raised, "fit with early stopping", **d2)
                outcomes.append("raised")
                break
            stops = [x for x in (ref_stop, e_ext if ext_fired else None) if x is not None]
            want_last = min(stops) if stops else rr["epochs"]
            if last_epoch_run != want_last:
                if stops and (last_epoch_run or 0) > want_last:
                    why = f"rule met at epoch {ref_stop} (patience {p}, {crit})" if ref_stop == want_last else f"another callback requested a stop at epoch {e_ext}"
                    run.violate("18-late", f"run {ri}: {why} but training ran until epoch {last_epoch_run}", **d2)
                elif not stops:
                    run.violate("18-early", f"run {ri}: training stopped at epoch {last_epoch_run} although the rule was never met in epochs {tc['starting_epoch']}..{rr['epochs']}", **d2)
                else:
                    run.violate("18-early", f"run {ri}: training stopped at epoch {last_epoch_run}, the rule is first met at epoch {ref_stop}", **d2)
            if ref_stop is not None and es.last_epoch != ref_stop:
                run.violate("18-last-epoch", f"run {ri}: last_epoch is {es.last_epoch}, reference stop epoch is {ref_stop}", **d2)
            if ref_stop is None and ri == 0 and es.last_epoch is not None:
                run.violate("18-last-epoch", f"run {ri}: last_epoch is {es.last_epoch} although the rule was never met", **d2)
            if stops and not info["flag_after"]:
                run.violate("18-flag", f"run {ri}: a stop was due ({'rule met' if ref_stop is not None else 'requested by another callback'}) but stop_training is not set after fit", **d2)
            if not stops and info["flag_after"]:
                run.violate("18-early", f"run {ri}: stop_training set although the rule was never met", **d2)
            # evaluator schedule sanity for the history itself (the stopper's input)
            want_eval_epochs = [e for e in ees if e % c["ev_period"] == 0]
            got_eval_epochs = [h[0] for h in H[hstart:]]
            if got_eval_epochs != want_eval_epochs:
                run.violate("18-history", f"run {ri}: evaluations happened at epochs {got_eval_epochs[:8]}, expected {want_eval_epochs[:8]}", **d2)
            outcomes.append(("stop", ref_stop) if ref_stop is not None else ("ext", e_ext) if ext_fired else "ran-out")
            if ref_stop is not None:
                run.probes["stopped_by_rule"] += 1
            if ext_fired:
                run.probes["external_stop_fired"] += 1
        rng.check_global()

    tolc = "0" if tol == 0 else ("inf" if tol == float("inf") else "mid")
    run.trace = trace + [tolc, outcomes, len(H), len(consulted), [(rr["epochs"], bool(rr.get("clear")), rr.get("external_stop")) for rr in runs]]
    run.nontrivial = len(consulted) >= 2
    run.sim["epochs"] += total_ees
    run.sim["evaluations"] += len(H)
    run.sim["stopper_checks"] += len(consulted)
    if p == 1:
        run.probes["patience_1"] += 1
    return run.result()


def shrink(plan):
    out = []
    c = plan["config"]

    def v(**kw):
        q = copy.deepcopy(plan)
        q["config"].update(kw)
        return q

    runs = c.get("runs") or [{"epochs": c["epochs"], "starting_epoch": 1}]
    if len(runs) > 1:
        out.append(v(runs=runs[:1]))
    if runs[0].get("external_stop") is not None:
        q = copy.deepcopy(plan)
        q["config"]["runs"][0].pop("external_stop")
        out.append(q)
    if len(runs) == 1 and runs[0]["epochs"] > 2:
        for e2 in (runs[0]["epochs"] - 1, max(2, runs[0]["epochs"] // 2)):
            q = copy.deepcopy(plan)
            q["config"]["runs"] = [dict(runs[0], epochs=e2)]
            if q["config"]["runs"][0].get("external_stop", 0) and q["config"]["runs"][0]["external_stop"] > e2:
                q["config"]["runs"][0]["external_stop"] = e2
            q["config"]["epochs"] = e2
            out.append(q)
    for key in ("ev_period", "es_period", "patience"):
        if c[key] > 1:
            out.append(v(**{key: 1}))
            out.append(v(**{key: c[key] - 1}))
    if c["order"] != "eval_first":
        out.append(v(order="eval_first"))
    if c["evaluator"] != "metric" and c["criterion"] != "variance":
        out.append(v(evaluator="metric"))
    if c["criterion"] != "absolute" and c["evaluator"] != "metric":
        out.append(v(criterion="absolute", klass="EarlyStopping"))
    if c["criterion"] == "relative":
        out.append(v(criterion="absolute"))
    if c["state"]["type"] != "positive":
        q = copy.deepcopy(plan)
        q["config"]["state"]["type"] = "positive"
        out.append(q)
    if c.get("extra_metric"):
        out.append(v(extra_metric=False))
    if c.get("value_type", "float") != "float":
        out.append(v(value_type="float"))
    if c.get("criterion_spelling", "plain") != "plain":
        out.append(v(criterion_spelling="plain"))
    if c.get("variance_name") not in (None,):
        out.append(v(variance_name=None))
    simple = [float(i % 3) for i in range(len(c["values"]))]
    if c["values"] != simple:
        out.append(v(values=simple, spreads=[1.0] * len(simple)))
    return out
