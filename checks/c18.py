"""C18 - early stopping halts exactly when its documented convergence rule is
met.  Simulated: the monitored quantity is a scripted sensor; two periodic
tasks (evaluator period, stopper period) on the epoch clock; callback order
both ways.  Oracle: reference decision procedure on the recorded history."""
import copy
import math

from qsim import plan as P
from qsim.core import Run

PROP = "C18"
QUICK_RUNS = 6400
RULE = (
    "one case = one training run (<= 25 epochs, one batch per epoch) with a MetricEvaluator or ObservableEvaluator fed by a "
    "scripted sensor (monotone / oscillating / constant / with zeros / converging at a chosen step; scripted variance) and an "
    "EarlyStopping or VarianceBasedEarlyStopping callback (period 1..4, patience 1..5, three criteria, tolerance 0..inf), "
    "evaluator before or after the stopper in the callback list; the epoch at which training stops is compared with a "
    "reference decision procedure run on the evaluations the witness recorded; non-trivial = the stopper was consulted at "
    "least twice; distinct = distinct abstract trace (evaluator kind, periods, patience, criterion, tolerance class, order, "
    "stop epoch, number of evaluations)"
)
COMPONENTS = {
    "real": ["qucumber.callbacks.EarlyStopping / VarianceBasedEarlyStopping / MetricEvaluator / ObservableEvaluator", "System.statistics (observable evaluator)", "fit loop and stop handling"],
    "stub": ["monitored metric / observable values (scripted sensor)", "torch RNG entry points (seeded stream)"],
}
ASSUMPTIONS = [
    "a check whose relative criterion has a zero reference value, or whose variance criterion has a zero reference variance, is unspecified (division by zero) and is not judged; the run is judged up to that check",
    "'the evaluation p evaluations earlier' is evaluator.past_values[-1-p] at the moment the stopper runs (so callback order matters and is part of the history)",
]


def gen_script(r, n):
    kind = r.choice(["monotone", "oscillating", "constant", "zeros", "converging", "walk"])
    if kind == "monotone":
        a, b, q = r.uniform(-2, 2), r.uniform(0.5, 3), r.choice([0.5, 0.8, 0.95])
        vals = [a + b * q ** t for t in range(n)]
    elif kind == "oscillating":
        a, b = r.uniform(-1, 1), r.uniform(0.1, 2)
        per = r.choice([2, 3, 4])
        vals = [a + b * (1 if (t % per) == 0 else -1) * (0.9 ** t if r.random() < 0.5 else 1.0) for t in range(n)]
    elif kind == "constant":
        c = r.choice([0.0, 1.0, -2.5, 1e-3])
        vals = [c for _ in range(n)]
    elif kind == "zeros":
        vals = [r.choice([0.0, 0.0, 1.0, -1.0, 0.5]) for _ in range(n)]
    elif kind == "converging":
        at = r.randint(1, max(1, n - 1))
        c = r.uniform(-2, 2)
        vals = [c + (r.uniform(1, 3) * (1 if t % 2 else -1) if t < at else 0.0) for t in range(n)]
    else:
        x = r.uniform(-1, 1)
        vals = []
        for _ in range(n):
            x += r.uniform(-0.5, 0.5)
            vals.append(x)
    spreads = [r.choice([0.0, 0.25, 0.5, 1.0, 2.0]) if r.random() < 0.3 else r.choice([0.5, 1.0]) for _ in range(n)]
    return kind, [float(v) for v in vals], spreads


def generate(seed, tier):
    r = P.rng_for(seed)
    epochs = r.randint(2, 25 if tier == "thorough" else 18)
    evk = r.choice(["metric", "observable"])
    crit = r.choice(["relative", "absolute", "variance"])
    klass = "EarlyStopping"
    if crit == "variance" and r.random() < 0.4:
        klass = "VarianceBased"
    kind, vals, spreads = gen_script(r, epochs + 2)
    scale = max(1e-9, max(abs(v) for v in vals))
    tol = r.choice([0.0, 1e-6, 1e-3 * scale, 0.05 * scale, 0.5 * scale, 1.0, 10.0, float("inf")])
    return {
        "property": PROP,
        "run_seed": seed,
        "sub": P.s64(r),
        "config": {
            "state": {"type": r.choice(["positive", "positive", "complex"]), "nv": 2, "nh": 1, "scale": 0.1, "pseed": P.s64(r)},
            "epochs": epochs,
            "evaluator": evk,
            "ev_period": r.choice([1, 1, 2, 3, 4]),
            "es_period": r.choice([1, 1, 2, 3, 4]),
            "patience": r.randint(1, 5),
            "tolerance": tol,
            "criterion": crit,
            "klass": klass,
            "order": r.choice(["eval_first", "eval_first", "stop_first"]),
            "script_kind": kind,
            "values": vals,
            "spreads": spreads,
            "extra_metric": r.random() < 0.3,
        },
    }


def execute(plan):
    import warnings

    import numpy as np
    import torch

    from qsim.models import protocol
    from qsim.seams.rng import RngSeam
    from qsim.train import run_fit
    from qsim.world import build_data, build_state

    run = Run(plan)
    c = plan["config"]
    rng = RngSeam(run)
    from qucumber.callbacks import EarlyStopping, MetricEvaluator, ObservableEvaluator, VarianceBasedEarlyStopping
    from qucumber.observables import ObservableBase

    vals, spreads = c["values"], c["spreads"]
    H = []  # witness record of evaluations: (epoch, mean, variance)
    idx = {"t": 0}
    consulted = []  # (epoch, len(H) at that moment)
    cur = {"epoch": None}

    class Sensor(ObservableBase):
        def __init__(self):
            self.name = "Sensor"
            self.symbol = "S"

        def apply(self, nn_state, samples):
            t = min(idx["t"], len(vals) - 1)
            n = samples.shape[0]
            sign = torch.tensor([1.0 if i % 2 == 0 else -1.0 for i in range(n)], dtype=torch.double)
            return vals[t] + spreads[t] * sign

    def metric(nn_state, **kw):
        t = min(idx["t"], len(vals) - 1)
        idx["t"] += 1
        H.append((cur["epoch"], vals[t], None))
        return vals[t]

    with rng:
        rng.stream(plan["sub"])
        state = build_state(c["state"])
        dcfg = {"N": 2, "nv": 2, "dseed": plan["sub"], "form": "tensor", "basis_mode": "allZ"}
        data_in, _, bases = build_data(dcfg, with_bases=c["state"]["type"] != "positive")
        rng.arm_global(plan["sub"])
        construct_error = None
        try:
            with warnings.catch_warnings():
                warnings.simplefilter("ignore")
                if c["evaluator"] == "metric":
                    metrics = {"m": metric}
                    if c.get("extra_metric"):
                        metrics = {"other": lambda s, **kw: 42.0, "m": metric}
                    ev = MetricEvaluator(c["ev_period"], metrics)
                    qname = "m"
                else:
                    ev = ObservableEvaluator(c["ev_period"], [Sensor()], num_samples=4, num_chains=2, burn_in=1, steps=1)
                    qname = "Sensor"
                    orig_stats = ev.system.statistics

                    def stats(nn_state, **kw):
                        out = orig_stats(nn_state, **kw)
                        idx["t"] += 1
                        H.append((cur["epoch"], float(out["Sensor"]["mean"]), float(out["Sensor"]["variance"])))
                        return out

                    ev.system.statistics = stats
                try:
                    if c["klass"] == "VarianceBased":
                        es = VarianceBasedEarlyStopping(c["es_period"], c["tolerance"], c["patience"], ev, qname, "ignored")
                    else:
                        es = EarlyStopping(c["es_period"], c["tolerance"], c["patience"], ev, qname, criterion=c["criterion"])
                except TypeError as exc:
                    construct_error = exc
                    es = None
        except Exception as exc:  # noqa: BLE001
            run.lib_exception(exc, "constructing evaluator / stopper")
            run.trace = ["construct-raised"]
            return run.result()

        want_refused = c["criterion"] == "variance" and c["evaluator"] == "metric"
        trace = [c["evaluator"], c["criterion"], c["klass"], c["ev_period"], c["es_period"], c["patience"], c["order"], c["script_kind"]]
        if want_refused:
            run.require(construct_error is not None, "18-refuse", "variance criterion was accepted for a plain MetricEvaluator", klass=c["klass"])
            run.trace = trace + ["refused" if construct_error is not None else "accepted"]
            run.nontrivial = False
            return run.result()
        if construct_error is not None:
            run.violate("18-refuse", f"constructor raised TypeError for a legal combination: {construct_error}", klass=c["klass"], criterion=c["criterion"])
            run.trace = trace + ["ctor-typeerror"]
            return run.result()

        # the stopper is observed, not replaced: wrap on the instance to learn when it is consulted
        orig_on_epoch_end = es.on_epoch_end

        def es_epoch_end(nn_state, epoch):
            if epoch % c["es_period"] == 0:
                consulted.append((epoch, len(H)))
            return orig_on_epoch_end(nn_state, epoch)

        es.on_epoch_end = es_epoch_end

        def handler(kind, args, i, nn_state, seq):
            if kind == "ES":
                cur["epoch"] = args[0]

        pair = [ev, es] if c["order"] == "eval_first" else [es, ev]
        tc = {"epochs": c["epochs"], "starting_epoch": 1, "pos_bs": 2, "neg_bs": None, "k": 1, "lr": 0.01, "time": False}
        with warnings.catch_warnings():
            warnings.simplefilter("ignore")
            info = run_fit(run, state, tc, data_in, bases, n_wit=1, handler=handler, cbs_between=pair, snapshot=False)
        rng.check_global()

    items, _ = protocol.extract(run, 1)
    ees = [it[2][0] for it in items if it[0] == "ev" and it[1] == "EE"]
    last_epoch_run = ees[-1] if ees else None

    # ---- reference decision procedure on the recorded history ------------------
    p = c["patience"]
    tol = c["tolerance"]
    crit = c["criterion"]
    ref_stop = None
    unspecified_at = None
    for epoch, nH in consulted:
        if nH <= p:
            continue
        curv = H[nH - 1]
        refv = H[nH - 1 - p]
        if crit == "relative":
            if refv[1] == 0:
                unspecified_at = epoch
                break
            dev = abs((refv[1] - curv[1]) / refv[1])
        elif crit == "absolute":
            dev = abs(refv[1] - curv[1])
        else:
            if refv[2] is None or not (refv[2] > 0):
                unspecified_at = epoch
                break
            dev = abs(refv[1] - curv[1]) / math.sqrt(refv[2])
        if dev < tol:
            ref_stop = epoch
            break
    detail = dict(patience=p, criterion=crit, evaluator=c["evaluator"], order=c["order"], ev_period=c["ev_period"], es_period=c["es_period"], klass=c["klass"])
    raised = info["raised"]
    if unspecified_at is not None:
        run.probes["unspecified_zero_denominator"] += 1
        # judge only what happened strictly before the unspecified check
        if raised is None and last_epoch_run is not None and last_epoch_run < unspecified_at:
            run.violate("18-early", f"training stopped at epoch {last_epoch_run}, before any check could have met the rule", **detail)
        outcome = "unspecified"
    else:
        if raised is not None:
            run.lib_exception(raised, "fit with early stopping", **detail)
            outcome = "raised"
        else:
            want_last = ref_stop if ref_stop is not None else c["epochs"]
            if last_epoch_run != want_last:
                if ref_stop is not None and (last_epoch_run or 0) > ref_stop:
                    run.violate("18-late", f"rule met at epoch {ref_stop} (patience {p}, {crit}) but training ran until epoch {last_epoch_run}", **detail)
                elif ref_stop is None:
                    run.violate("18-early", f"training stopped at epoch {last_epoch_run} although the rule was never met in {c['epochs']} epochs", **detail)
                else:
                    run.violate("18-early", f"training stopped at epoch {last_epoch_run}, the rule is first met at epoch {ref_stop}", **detail)
            if es.last_epoch != ref_stop:
                run.violate("18-last-epoch", f"last_epoch is {es.last_epoch}, reference stop epoch is {ref_stop}", **detail)
            if ref_stop is not None and not info["flag_after"]:
                run.violate("18-flag", "rule met but stop_training is not set after fit", **detail)
            if ref_stop is None and info["flag_after"]:
                run.violate("18-early", "stop_training set although the rule was never met", **detail)
            outcome = ("stop", ref_stop) if ref_stop is not None else "ran-out"
    # evaluator schedule sanity for the history itself (the stopper's input)
    want_eval_epochs = [e for e in ees if e % c["ev_period"] == 0]
    got_eval_epochs = [h[0] for h in H]
    if raised is None and got_eval_epochs != want_eval_epochs:
        run.violate("18-history", f"evaluations happened at epochs {got_eval_epochs[:8]}, expected {want_eval_epochs[:8]}", **detail)
    tolc = "0" if tol == 0 else ("inf" if tol == float("inf") else "mid")
    run.trace = trace + [tolc, outcome, len(H), len(consulted)]
    run.nontrivial = len(consulted) >= 2
    run.sim["epochs"] += len(ees)
    run.sim["evaluations"] += len(H)
    run.sim["stopper_checks"] += len(consulted)
    if p == 1:
        run.probes["patience_1"] += 1
    if ref_stop is not None:
        run.probes["stopped_by_rule"] += 1
    return run.result()


def shrink(plan):
    out = []
    c = plan["config"]

    def v(**kw):
        q = copy.deepcopy(plan)
        q["config"].update(kw)
        return q

    if c["epochs"] > 2:
        out.append(v(epochs=c["epochs"] - 1))
        out.append(v(epochs=max(2, c["epochs"] // 2)))
    for key in ("ev_period", "es_period", "patience"):
        if c[key] > 1:
            out.append(v(**{key: 1}))
            out.append(v(**{key: c[key] - 1}))
    if c["order"] != "eval_first":
        out.append(v(order="eval_first"))
    if c["evaluator"] != "metric" and c["criterion"] != "variance":
        out.append(v(evaluator="metric"))
    if c["criterion"] != "absolute" and c["evaluator"] != "metric":
        out.append(v(criterion="absolute", klass="EarlyStopping"))
    if c["criterion"] == "relative":
        out.append(v(criterion="absolute"))
    if c["state"]["type"] != "positive":
        q = copy.deepcopy(plan)
        q["config"]["state"]["type"] = "positive"
        out.append(q)
    if c.get("extra_metric"):
        out.append(v(extra_metric=False))
    simple = [float(i % 3) for i in range(len(c["values"]))]
    if c["values"] != simple:
        out.append(v(values=simple, spreads=[1.0] * len(simple)))
    return out
