"""C11 - saving and reloading reproduces the state exactly and has no side
effects.  Simulated: the filesystem (write errors, full disk, torn write by
process death, restart from surviving files) and arbitrary interleavings of
randomise / train / reinitialise / save / save-again / load / autoload over
several models and files.  Oracle: reference file-store model."""
import copy

from qsim import plan as P
from qsim.core import Run, SimCrash, teq

PROP = "C11"
QUICK_RUNS = 8000
RULE = (
    "one case = one seeded history of 4-14 operations over 3 models (two of equal shape) and 4 files on a simulated "
    "disk: randomise / train / reinitialise / add user unitary / save with metadata object (None, {}, flat, nested, "
    "tensor-valued; the same dict objects are reused across saves) / save with reserved key / load / autoload, with "
    "disk faults (ENOSPC, EIO at the k-th write; process death inside the k-th write followed by restart); "
    "non-trivial = at least one load/autoload of an acknowledged file was compared, or a fault fired; distinct = "
    "distinct abstract trace (model types, op kinds, metadata kinds, fault kinds and outcomes)"
)
COMPONENTS = {
    "real": ["NeuralStateBase.save/load, *.autoload", "torch.save/torch.load serialiser (real, on SimDisk file objects)", "qucumber fit (tiny training op)"],
    "stub": ["filesystem (SimDisk)", "torch RNG entry points (seeded stream)"],
}
ASSUMPTIONS = [
    "crash = process death with written bytes surviving (no power loss: the library never syncs)",
    "a failed or torn save makes only that path indeterminate; a load that raises makes only that model unknown",
    "locations are str paths (autoload on a file object reads the stream twice and is outside the property)",
]

MD_KINDS = ["none", "empty", "flat", "nested", "tensor", "tuple", "tricky"]
PATHS = ["/ckpt/p0.pt", "/ckpt/p1.pt", "/ckpt/p2.pt", "/ckpt/p3.pt"]


def generate(seed, tier):
    r = P.rng_for(seed)
    a = P.gen_state_cfg(r, type_weights=(1, 2, 2), max_nv=4, max_nh=4, max_na=3, custom_p=0.4)
    b = dict(a, pseed=P.s64(r))
    c = P.gen_state_cfg(r, type_weights=(1, 1, 1), max_nv=3, max_nh=3, max_na=2, custom_p=0.3)
    models = [a, b, c]
    md_slots = [r.choice(MD_KINDS) for _ in range(3)]
    if r.random() < 0.7:
        md_slots[0] = r.choice(["flat", "nested", "tensor", "tuple", "tricky"])
    nops = r.randint(4, 14)
    ops = []
    faulty = r.random() < 0.4  # separate stratum: fault-free histories judge the ordinary rules alone
    for _ in range(nops):
        m = r.random()
        mi = r.choice([0, 0, 1, 1, 2])
        if m < 0.12:
            ops.append({"op": "randomise", "m": mi, "pseed": P.s64(r), "scale": r.choice([0.1, 1.0, 5.0]), "special": r.random() < 0.25})
        elif m < 0.17:
            ops.append({"op": "reinit", "m": mi, "sub": P.s64(r)})
        elif m < 0.22:
            ops.append({"op": "train", "m": mi, "sub": P.s64(r), "dseed": P.s64(r)})
        elif m < 0.27:
            ops.append({"op": "add_unitary", "m": mi, "name": r.choice(["Q", "R", "Q", "X", "Y", "Z", "N", "N"]), "th": round(r.uniform(0.1, 3.0), 3), "near": r.choice([0.0, 2e-9, 1e-7]), "edit": r.choice(["set", "set", "set", "set", "remove_xy", "clear"])})
            if ops[-1]["name"] == "N" and ops[-1]["edit"] == "set" and mi in (0, 1):
                # the model of the same shape gets a NEARLY identical matrix under the same name
                ops.append({"op": "add_unitary", "m": 1 - mi, "name": "N", "th": 0.5, "near": r.choice([x for x in (0.0, 2e-9, 1e-7) if x != ops[-1]["near"]]), "edit": "set"})
        elif m < 0.62:
            op = {"op": "save", "m": mi, "path": r.choice(PATHS), "md": r.randrange(0, 3)}
            if faulty and r.random() < 0.35:
                op["fault"] = {
                    "kind": r.choice(["enospc", "eio", "crash_write", "crash_write"]),
                    "at": r.choice([0, 1, 2, 5, 10, 20, 40, 60, 75, 78, r.randrange(0, 90)]),
                    "frac": r.choice([0.0, 0.5, 1.0]),
                }
            ops.append(op)
        elif m < 0.66:
            ops.append({"op": "save_reserved", "m": mi, "path": r.choice(PATHS), "key": r.choice(["rbm_am", "rbm_ph", "unitary_dict"]), "value": r.choice([1, 1337, None, 0, "", False])})
        elif m < 0.80:
            ops.append({"op": "load", "m": mi, "path": r.choice(PATHS)})
        elif m < 0.86:
            # the location may also be a file object: save into / load from an in-memory file
            ops.append({"op": "fobj_roundtrip", "m": mi, "dst": r.choice([0, 1, 2]), "md": r.randrange(0, 3), "lead": r.choice([0, 0, 1, 2]), "trail": 0})
        else:
            ops.append({"op": "autoload", "path": r.choice(PATHS)})
    config = {"models": models, "md_slots": md_slots}
    if not faulty and r.random() < 0.15:
        config["real_disk"] = True  # fault-free stratum on a real temporary directory
    return {"property": PROP, "run_seed": seed, "sub": P.s64(r), "config": config, "ops": ops}


def _make_md(kind, torch):
    if kind == "none":
        return None
    if kind == "empty":
        return {}
    if kind == "flat":
        return {"note": "run-7", "epoch": 3, "lr": 0.01}
    if kind == "nested":
        return {"cfg": {"sizes": [1, 2, 3], "tags": {"a": "b"}}, "history": [0.5, 0.25]}
    if kind == "tensor":
        return {"target": torch.arange(6, dtype=torch.double).reshape(2, 3) / 7.0, "ids": torch.tensor([3, 1, 2])}
    if kind == "tricky":
        # ordinary, non-reserved keys that merely sound like internals
        return {"unitaries": {"X": torch.eye(2, dtype=torch.double)}, "networks": ["rbm_am"], "state_dict": {"weights": 1}, "rbm": None, "metadata": {"unitary_dict": 3}}
    if kind == "tuple":
        return {"lattice": (2, 3), "pair": (torch.ones(2, dtype=torch.double), torch.zeros(1)), "cfg": {"window": (1, 2.5, "x"), "flag": True, "none": None}}
    raise ValueError(kind)


def execute(plan):
    import numpy as np
    import torch

    from qsim.seams.disk import RealDisk, SimDisk
    from qsim.seams.rng import RngSeam
    from qsim.world import build_data, build_state, randomise, state_class

    run = Run(plan)
    cfg = plan["config"]
    rng = RngSeam(run)
    disk = RealDisk(run) if cfg.get("real_disk") else SimDisk(run)

    def deq(a, b):
        if isinstance(a, torch.Tensor) or isinstance(b, torch.Tensor):
            return isinstance(a, torch.Tensor) and isinstance(b, torch.Tensor) and teq(a, b)
        if isinstance(a, dict) or isinstance(b, dict):
            if not (isinstance(a, dict) and isinstance(b, dict)) or list(a.keys()) != list(b.keys()):
                if isinstance(a, dict) and isinstance(b, dict) and set(a.keys()) == set(b.keys()):
                    return all(deq(a[k], b[k]) for k in a)
                return False
            return all(deq(a[k], b[k]) for k in a)
        if isinstance(a, (list, tuple)) or isinstance(b, (list, tuple)):
            return type(a) == type(b) and len(a) == len(b) and all(deq(x, y) for x, y in zip(a, b))
        return type(a) == type(b) and a == b

    def snap(st):
        s = {
            "type": type(st).__name__,
            "nets": {net: {k: v.detach().clone() for k, v in getattr(st, net).state_dict().items()} for net in st.networks},
            "sizes": (st.num_visible, st.num_hidden, getattr(st, "num_aux", None) if "num_aux" in st.__dict__ else None),
            "udict": None,
        }
        if "unitary_dict" in st.__dict__:
            s["udict"] = {k: v.detach().clone() for k, v in st.unitary_dict.items()}
        return s

    def same_model(st, s, what, rule, **detail):
        ok = True
        if type(st).__name__ != s["type"]:
            run.violate(rule, f"{what}: model type {type(st).__name__}, expected {s['type']}", **detail)
            return False
        for net in s["nets"]:
            cur = getattr(st, net).state_dict()
            if list(cur.keys()) != list(s["nets"][net].keys()):
                run.violate(rule, f"{what}: network {net} has parameters {list(cur.keys())}", **detail)
                ok = False
                continue
            for k, v in s["nets"][net].items():
                if not teq(cur[k], v):
                    run.violate(rule, f"{what}: parameter {net}.{k} is not bit-identical", net=net, name=k, **detail)
                    ok = False
        sizes = (st.num_visible, st.num_hidden, getattr(st, "num_aux", None) if "num_aux" in st.__dict__ else None)
        if sizes != s["sizes"]:
            run.violate(rule, f"{what}: architecture {sizes}, expected {s['sizes']}", **detail)
            ok = False
        if s["udict"] is not None:
            ud = st.__dict__.get("unitary_dict")
            if ud is None or sorted(ud.keys()) != sorted(s["udict"].keys()):
                run.violate(rule, f"{what}: unitary dictionary keys {None if ud is None else sorted(ud.keys())}, expected {sorted(s['udict'].keys())}", **detail)
                ok = False
            else:
                for k, v in s["udict"].items():
                    if not teq(ud[k], v):
                        run.violate(rule, f"{what}: unitary '{k}' is not bit-identical", **detail)
                        ok = False
        return ok

    def sig(c):
        return (c["type"], c["nv"], c["nh"], c.get("na"))

    trace = [[sig(c) for c in cfg["models"]], list(cfg["md_slots"]), bool(cfg.get("real_disk"))]
    compared = 0
    files = {}  # path -> {"status": "acked", "snap", "md", "sig"} | {"status": "indeterminate"}

    def build_models(gen_tag):
        ms = []
        for i, c in enumerate(cfg["models"]):
            c2 = dict(c)
            if gen_tag:
                c2["pseed"] = (c["pseed"] + 7919 * gen_tag + i) & (2 ** 63 - 1)
            ms.append(build_state(c2))
        return ms

    with rng, disk:
        rng.stream(plan["sub"])
        models = build_models(0)
        mds = [_make_md(k, torch) for k in cfg["md_slots"]]
        rng.arm_global(plan["sub"])
        generation = 0

        def check_file_meta(path, rec, what):
            try:
                raw = torch.load(path)
            except Exception as exc:  # noqa: BLE001
                run.lib_exception(exc, f"torch.load of acknowledged file {path}")
                return
            want_keys = set(rec["snap"]["nets"].keys())
            if rec["snap"]["udict"] is not None:
                want_keys.add("unitary_dict")
            md = rec["md"] or {}
            if set(raw.keys()) != want_keys | set(md.keys()):
                run.violate("11-metadata", f"{what}: file holds keys {sorted(raw.keys())}, expected networks+{sorted(md.keys())}", md_kind=rec["md_kind"])
                return
            for k, v in md.items():
                if not deq(raw[k], v):
                    run.violate("11-metadata", f"{what}: metadata value under '{k}' differs from what the caller passed", md_kind=rec["md_kind"])

        def durability(after):
            """every acknowledged file still loads to its snapshot"""
            nonlocal compared
            for path in PATHS:
                rec = files.get(path)
                if not rec or rec["status"] != "acked":
                    continue
                try:
                    st2 = state_class(rec["sig"][0]).autoload(path, gpu=False)
                except Exception as exc:  # noqa: BLE001
                    run.lib_exception(exc, f"autoload of acknowledged file {path} {after}", after=after)
                    continue
                same_model(st2, rec["snap"], f"acknowledged file {path} {after}", "11-durable", after=after)
                compared += 1

        def bystanders_unchanged(targets, what):
            for mi_, st_ in enumerate(models):
                if mi_ in targets:
                    watch[mi_] = snap(st_)
                elif not same_model(st_, watch[mi_], f"model {mi_}, which is not involved in {what}", "11-bystander", op=what):
                    watch[mi_] = snap(st_)

        watch = [snap(st_) for st_ in models]
        for j, op in enumerate(plan["ops"]):
            kind = op["op"]
            run.log.add("op", kind, j)
            if j > 0:
                prev = plan["ops"][j - 1]
                bystanders_unchanged({prev.get("m"), prev.get("dst")} - {None}, f"op {j - 1} ({prev['op']})")
            if kind == "randomise":
                randomise(models[op["m"]], op["pseed"], op["scale"])
                if op.get("special"):
                    # parameters are just doubles: subnormals, huge values, signed zeros have to survive a round trip bit for bit
                    sv = [5e-324, -1e-310, 1.7e308, -0.0, 2.2250738585072014e-308]
                    for net in models[op["m"]].networks:
                        for qi, (_, p_) in enumerate(getattr(models[op["m"]], net).named_parameters()):
                            if p_.numel():
                                p_.data[(0,) * p_.dim()] = sv[qi % len(sv)]
                trace.append("rand")
            elif kind == "reinit":
                rng.stream(op["sub"])
                try:
                    models[op["m"]].reinitialize_parameters()
                except Exception as exc:  # noqa: BLE001
                    run.lib_exception(exc, "reinitialize_parameters")
                trace.append("reinit")
            elif kind == "train":
                st = models[op["m"]]
                c = cfg["models"][op["m"]]
                rng.stream(op["sub"])
                has_xyz = "unitary_dict" not in st.__dict__ or all(k_ in st.unitary_dict for k_ in ("X", "Y", "Z"))
                if "unitary_dict" in st.__dict__ and "Z" not in st.unitary_dict:
                    trace.append("train-skipped")
                    continue  # no reference basis left: nothing legal to train on
                dcfg = {"N": 3, "nv": c["nv"], "dseed": op["dseed"], "form": "tensor", "basis_mode": "mixed" if has_xyz else "allZ"}
                # bases may only use unitaries the model holds NOW (a load may have replaced its dictionary)
                customs = [k_ for k_ in st.__dict__.get("unitary_dict", {}) if k_ not in ("X", "Y", "Z", "Q", "R", "N")]
                if customs and has_xyz:
                    dcfg["custom_unitary"] = True
                    dcfg["custom_name"] = customs[0]
                din, _, bases = build_data(dcfg, with_bases=c["type"] != "positive")
                kw = {} if bases is None else {"input_bases": bases}
                try:
                    st.fit(din, epochs=1, pos_batch_size=2, k=1, lr=0.1, progbar=False, **kw)
                except Exception as exc:  # noqa: BLE001
                    run.lib_exception(exc, "fit")
                trace.append("train")
            elif kind == "add_unitary":
                st = models[op["m"]]
                if "unitary_dict" in st.__dict__ and op.get("edit", "set") == "remove_xy":
                    for key_ in ("X", "Y"):
                        st.unitary_dict.pop(key_, None)
                    trace.append("rmXY")
                elif "unitary_dict" in st.__dict__ and op.get("edit") == "clear":
                    st.unitary_dict = {}
                    trace.append("clearU")
                elif "unitary_dict" in st.__dict__:
                    # name "N": several models get NEARLY identical matrices under the same name
                    th = 0.5 + op.get("near", 0.0) if op["name"] == "N" else op["th"]
                    st.unitary_dict[op["name"]] = torch.tensor(
                        [[[np.cos(th), -np.sin(th)], [np.sin(th), np.cos(th)]], [[0.0, 0.0], [0.0, 0.0]]], dtype=torch.double
                    )
                    trace.append("addU")
            elif kind == "save":
                st = models[op["m"]]
                md = mds[op["md"]]
                md_kind = cfg["md_slots"][op["md"]]
                pre = snap(st)
                md_pre = copy.deepcopy(md)
                ud_obj = st.__dict__.get("unitary_dict")
                opens_before = len(disk.opens)
                fault = op.get("fault")
                disk.arm(fault)
                fired_before = sum(run.faults.values())
                outcome = "ok"
                exc_seen = None
                try:
                    st.save(op["path"], md)
                except SimCrash:
                    outcome = "crash"
                except Exception as exc:  # noqa: BLE001
                    outcome = "error"
                    exc_seen = exc
                disk.arm(None)
                fault_fired = sum(run.faults.values()) > fired_before
                opened = len(disk.opens) > opens_before
                if outcome == "crash":
                    files[op["path"]] = {"status": "indeterminate"}
                    trace.append(("save", md_kind, "crash"))
                    # ---- restart: only the disk survives --------------------
                    disk.frozen = False
                    generation += 1
                    run.log.add("op", "restart", generation)
                    durability("after crash and restart")
                    models = build_models(generation)
                    mds = [_make_md(k, torch) for k in cfg["md_slots"]]
                    watch = [snap(st_) for st_ in models]
                    continue
                # the process is alive: save must not have touched model or metadata
                same_model(st, pre, f"model after save (op {j}, outcome {outcome})", "11-side-effect-model", md_kind=md_kind)
                if ud_obj is not None and st.__dict__.get("unitary_dict") is not ud_obj:
                    run.violate("11-side-effect-model", "save replaced the model's unitary dictionary object (a reference the caller holds is detached from the model)", md_kind=md_kind, type=pre["type"])
                if not deq(md, md_pre):
                    added = sorted(set(md.keys()) - set(md_pre.keys())) if isinstance(md, dict) and isinstance(md_pre, dict) else None
                    run.violate(
                        "11-side-effect-metadata",
                        f"save modified the caller's metadata object (kind {md_kind}; keys added: {added})",
                        md_kind=md_kind,
                        type=pre["type"],
                        added=added,
                    )
                if outcome == "ok":
                    files[op["path"]] = {"status": "acked", "snap": pre, "md": copy.deepcopy(md_pre), "md_kind": md_kind, "sig": sig(cfg["models"][op["m"]])}
                    check_file_meta(op["path"], files[op["path"]], f"file written by op {j}")
                    trace.append(("save", md_kind, "ok", "unfired" if fault and not fault_fired else ""))
                else:
                    if fault_fired:
                        files[op["path"]] = {"status": "indeterminate"}
                        trace.append(("save", md_kind, "diskerr", fault["kind"]))
                        durability("after a failed save to another path")
                    else:
                        if opened:
                            files[op["path"]] = {"status": "indeterminate"}
                        run.lib_exception(exc_seen, "save", md_kind=md_kind, type=pre["type"])
                        trace.append(("save", md_kind, "raised"))
            elif kind == "save_reserved":
                st = models[op["m"]]
                key = op["key"]
                reserved = list(st.networks) + (["unitary_dict"] if "unitary_dict" in st.__dict__ else [])
                if key not in reserved:
                    continue
                pre = snap(st)
                opens_before = len(disk.opens)
                try:
                    st.save(op["path"], {key: op.get("value", 1), "other": 2})
                    run.violate("11-reserved", f"save accepted the reserved metadata key '{key}'", key=key, type=pre["type"])
                    files[op["path"]] = {"status": "indeterminate"}
                except ValueError:
                    if len(disk.opens) > opens_before:
                        run.violate("11-reserved", f"save refused reserved key '{key}' only after opening the file", key=key)
                        files[op["path"]] = {"status": "indeterminate"}
                except Exception as exc:  # noqa: BLE001
                    run.lib_exception(exc, "save with reserved key", key=key)
                same_model(st, pre, "model after refused save", "11-side-effect-model")
                trace.append(("reserved", key))
            elif kind == "load":
                st = models[op["m"]]
                rec = files.get(op["path"])
                if rec is None:
                    continue
                if rec["status"] == "indeterminate":
                    try:
                        st.load(op["path"])
                        run.probes["torn_file_loaded"] += 1
                    except Exception:  # noqa: BLE001  a torn file may refuse to load
                        run.probes["torn_file_refused"] += 1
                    trace.append(("load", "torn"))
                    continue
                if rec["sig"] != sig(cfg["models"][op["m"]]):
                    continue
                try:
                    st.load(op["path"])
                except Exception as exc:  # noqa: BLE001
                    run.lib_exception(exc, f"load of acknowledged file {op['path']}")
                    continue
                same_model(st, rec["snap"], f"model after load of {op['path']} (op {j})", "11-load", md_kind=rec["md_kind"])
                compared += 1
                # independence: the loaded model must not share its unitaries with the file snapshot
                trace.append(("load", rec["md_kind"]))
            elif kind == "fobj_roundtrip":
                import io as _io

                st = models[op["m"]]
                md = mds[op["md"]]
                md_kind = cfg["md_slots"][op["md"]]
                pre = snap(st)
                md_pre = copy.deepcopy(md)
                buf = _io.BytesIO()
                # several checkpoints may be written back to back into one stream; the caller seeks to the one it wants
                lead = op.get("lead", 0)
                try:
                    for _ in range(lead):
                        models[(op["m"] + 1) % len(models)].save(buf)
                    offset = buf.tell()
                    st.save(buf, md)
                    for _ in range(op.get("trail", 0)):
                        models[(op["m"] + 2) % len(models)].save(buf)
                except Exception as exc:  # noqa: BLE001
                    run.lib_exception(exc, "save to a file object", md_kind=md_kind, type=pre["type"])
                    continue
                same_model(st, pre, f"model after save to a file object (op {j})", "11-side-effect-model", md_kind=md_kind)
                if not deq(md, md_pre):
                    run.violate("11-side-effect-metadata", f"save to a file object modified the caller's metadata (kind {md_kind})", md_kind=md_kind, type=pre["type"])
                dst = models[op["dst"]]
                if sig(cfg["models"][op["dst"]]) == sig(cfg["models"][op["m"]]):
                    buf.seek(offset)
                    try:
                        dst.load(buf)
                    except Exception as exc:  # noqa: BLE001
                        run.lib_exception(exc, "load from a file object")
                        continue
                    same_model(dst, pre, f"model after load from a file object (op {j})", "11-load", md_kind=md_kind)
                    compared += 1
                trace.append(("fobj", md_kind))
            elif kind == "autoload":
                rec = files.get(op["path"])
                if rec is None:
                    continue
                if rec["status"] == "indeterminate":
                    continue
                try:
                    st2 = state_class(rec["sig"][0]).autoload(op["path"], gpu=False)
                except Exception as exc:  # noqa: BLE001
                    run.lib_exception(exc, f"autoload of acknowledged file {op['path']}")
                    continue
                same_model(st2, rec["snap"], f"auto-constructed model from {op['path']} (op {j})", "11-autoload", md_kind=rec["md_kind"])
                check_file_meta(op["path"], rec, f"file {op['path']}")
                compared += 1
                trace.append(("autoload", rec["sig"][0]))
            seamed = rng.check_global()
            del seamed
        if plan["ops"]:
            prev = plan["ops"][-1]
            bystanders_unchanged({prev.get("m"), prev.get("dst")} - {None}, f"op {len(plan['ops']) - 1} ({prev['op']})")
    run.trace = trace
    if cfg.get("real_disk"):
        run.probes["real_disk_runs"] += 1
    run.nontrivial = compared > 0 or sum(v for k, v in run.faults.items() if k in ("enospc", "eio", "crash_write")) > 0
    run.sim["ops"] += len(plan["ops"])
    run.sim["disk_writes"] += disk.total_writes
    run.probes["loads_compared"] += compared
    return run.result()


def shrink(plan):
    out = []
    c = plan["config"]
    for i, m in enumerate(c["models"]):
        for key in ("nv", "nh", "na"):
            if m.get(key, 1) > 1:
                q = copy.deepcopy(plan)
                q["config"]["models"][i][key] = 1
                if i in (0, 1):
                    q["config"]["models"][0][key] = 1
                    q["config"]["models"][1][key] = 1
                out.append(q)
        if m.get("custom_unitary"):
            q = copy.deepcopy(plan)
            q["config"]["models"][i].pop("custom_unitary")
            if i in (0, 1):
                q["config"]["models"][0].pop("custom_unitary", None)
                q["config"]["models"][1].pop("custom_unitary", None)
            out.append(q)
    for i, k in enumerate(c["md_slots"]):
        for simpler in ("none", "empty", "flat"):
            if MD_KINDS.index(simpler) < MD_KINDS.index(k):
                q = copy.deepcopy(plan)
                q["config"]["md_slots"][i] = simpler
                out.append(q)
    for j, op in enumerate(plan["ops"]):
        if "fault" in op:
            q = copy.deepcopy(plan)
            del q["ops"][j]["fault"]
            out.append(q)
    return out
