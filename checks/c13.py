"""C13 - streaming observable statistics equal the statistics of all drawn
samples.  Simulated: the random stream (so every chain state is known), the
continuing chains across draws, and how the sample stream is chunked."""
import copy
import math

from qsim import plan as P
from qsim.core import Run, close

PROP = "C13"
QUICK_RUNS = 4000
RULE = (
    "one case = one model and a history of 2-5 operations: ObservableBase.statistics / System.statistics with "
    "(num_samples, num_chains incl. 0, 1, >num_samples, non-divisors; burn_in, steps >= 0; user-provided initial chains "
    "with overwrite on/off; built-in, composite and user-defined observables and sets of them), and the pairwise merge "
    "fed with a dataset cut into simulator-chosen chunk sizes (incl. chunks of one); the sample stream is captured at the "
    "public sample() seam; non-trivial = at least one statistics call with >= 2 draws or a merge with >= 3 chunks; "
    "distinct = distinct abstract trace (type, observable set, sample/chain counts, schedule, chunkings)"
)
COMPONENTS = {
    "real": ["qucumber.observables (ObservableBase.statistics, System.statistics, _update_statistics, SigmaX/Y/Z, NeighbourInteraction, SWAP, Sum/ProdObservable)", "NeuralStateBase.sample / gibbs_steps", "torch numerics"],
    "stub": ["torch.bernoulli etc. served from the plan's PCG64 stream"],
}
ASSUMPTIONS = [
    "reference statistics are numpy one-pass mean / unbiased variance over the concatenation of per-draw apply() results (SWAP pairs samples within a batch, so per-draw application is the only well-defined concatenation)",
    "NaN equals NaN where the one-pass value is itself undefined (a single sample)",
    "tolerance 1e-9 relative to max(1, |value|, mean^2)",
]

OBS = ["Z", "Zabs", "X", "Y", "NN", "NNp", "SWAP", "2Z+X", "Z-0.5", "negZ", "user", "const", "view", "view+Z", "1e7+Z", "1e-17Z", "3e-21X", "1e12Z"]


def generate(seed, tier):
    r = P.rng_for(seed)
    scfg = P.gen_state_cfg(r, max_nv=4, max_nh=3, max_na=2, scales=(0.1, 1.0, 3.0), custom_p=0.0)
    if r.random() < 0.03 and scfg["type"] != "density":
        # occasionally a system of realistic size (nothing in this check needs to enumerate the basis)
        scfg["nv"] = r.choice([20, 54, 64])
        scfg["scale"] = 0.1
        # a partly ordered system: most spins frozen by strong fields, the last few free
        scfg["frozen_prefix"] = r.random() < 0.7
    nops = r.randint(2, 5)
    ops = []
    for _ in range(nops):
        m = r.random()
        if m < 0.05 and ops:
            # the model's parameters change between evaluations (training, loading): nothing may be remembered
            ops.append({"op": "reparam", "pseed": P.s64(r), "scale": r.choice([0.1, 1.0, 3.0])})
            continue
        if 0.05 <= m < 0.08 and ops:
            # user code fails in the middle of a joint evaluation; whatever is evaluated afterwards must be unaffected
            ops.append({"op": "bomb_stats", "at": r.randint(1, 4), "sub": P.s64(r), "num_samples": r.choice([4, 9]), "num_chains": r.choice([0, 2, 3])})
            continue
        if m < 0.25:
            n = r.randint(1, 24)
            chunks = []
            left = n
            while left > 0:
                c = r.choice([1, 1, 2, 3, 5, left])
                c = min(c, left)
                chunks.append(c)
                left -= c
            ops.append({"op": "merge", "dseed": P.s64(r), "chunks": chunks, "kind": r.choice(["normal", "const", "binary", "large_offset", "tiny"]), "tree": r.random() < 0.3})
            continue
        if m > 0.97:
            # a single block of samples fed to the block statistics directly (any size, incl. large ones)
            ops.append({"op": "from_samples", "n": r.choice([1, 2, 7, 100, 1025, 4097, 5000, 8193, 10007]), "obs": [r.choice(["Z", "user", "NN", "const", "Z-0.5"])], "dseed": P.s64(r), "system": r.random() < 0.5})
            continue
        ns = r.choice([1, 2, 3, 5, 7, 10, 16, 25, 40])
        nc = r.choice([0, 0, 1, 1, 2, 3, 4, 7, ns, ns + 3])
        x4 = r.random()
        if x4 < 0.04:
            # occasionally very many samples / chains (large blocks)
            ns = r.choice([1000, 4097, 5000, 10007])
            nc = r.choice([0, 0, 4097, 5000, 3])
        elif x4 < 0.05:
            ns, nc = 100001, 50000  # products of lengths beyond 2**31
        elif x4 < 0.0515 and scfg["nv"] <= 2:
            nc = 2000000
            ns = nc + r.choice([1, 2, nc])  # a remainder that is tiny relative to the chain count
        op = {
            "op": "sys_stats" if m > 0.65 else "obs_stats",
            "num_samples": ns,
            "num_chains": nc,
            "burn_in": r.choice([0, 1, 2, 5]),
            "steps": r.choice([0, 1, 1, 2, 3]),
            "sub": P.s64(r),
            "mode": r.choice(["honest", "honest", "rare"]),
            "positional": r.random() < 0.3,
            "int_type": r.choice(["int", "int", "int", "np_int32", "np_int64"]),
        }
        if r.random() < 0.3 and ns < 100000:
            op["init_rows"] = r.choice([1, 2, 3, 5])
            op["init_dtype"] = r.choice(["double", "double", "float", "long"])
            op["init_seed"] = P.s64(r)
            op["overwrite"] = r.random() < 0.5
        cheap = ns >= 1000
        if ns >= 100000:
            op["burn_in"], op["steps"] = r.choice([0, 1]), r.choice([0, 1])
        pool = ["Z", "Zabs", "NN", "user", "const", "Z-0.5", "negZ", "view", "1e7+Z", "1e-17Z", "1e12Z"] if cheap else OBS
        if ns >= 100000:
            pool = ["Z", "const", "view"]
        if op["op"] == "sys_stats":
            k = r.randint(1, 4)
            op["obs"] = r.sample(pool, min(k, len(pool)))
        else:
            op["obs"] = [r.choice(pool)]
        ops.append(op)
    return {"property": PROP, "run_seed": seed, "sub": P.s64(r), "config": {"state": scfg}, "ops": ops}


def make_obs(name, nv, counter):
    from qucumber.observables import SWAP, NeighbourInteraction, ObservableBase, SigmaX, SigmaY, SigmaZ

    if name == "Z":
        return SigmaZ()
    if name == "Zabs":
        return SigmaZ(absolute=True)
    if name == "X":
        return SigmaX()
    if name == "Y":
        return SigmaY()
    if name == "NN":
        return NeighbourInteraction(c=1)
    if name == "NNp":
        return NeighbourInteraction(periodic_bcs=True, c=1)
    if name == "SWAP":
        return SWAP([0])
    if name == "2Z+X":
        return 2 * SigmaZ() + SigmaX()
    if name == "Z-0.5":
        return SigmaZ() - 0.5
    if name == "negZ":
        return -SigmaZ()
    if name == "1e-17Z":
        return 1e-17 * SigmaZ()  # a quantity in small units
    if name == "3e-21X":
        return SigmaX() * 3e-21
    if name == "1e12Z":
        return 1e12 * SigmaZ()
    if name == "1e7+Z":
        return 1e7 + SigmaZ()  # an estimator sitting on a large constant
    if name in ("view", "view+Z"):

        class FirstSite(ObservableBase):
            """a legal user observable whose apply() returns a VIEW of the sample block"""

            def __init__(self):
                self.name = "FirstSite"
                self.symbol = "F"

            def apply(self, nn_state, samples):
                return samples[:, 0]

        return FirstSite() if name == "view" else FirstSite() + SigmaZ()

    class User(ObservableBase):
        def __init__(self):
            self.name = "UserParity"
            self.symbol = "P"

        def apply(self, nn_state, samples):
            counter["user_apply"] += 1
            return (samples.sum(1) % 2) * 3.0 - samples[:, 0]

    class Const(ObservableBase):
        def __init__(self):
            self.name = "Const"
            self.symbol = "C"

        def apply(self, nn_state, samples):
            return samples[:, 0] * 0.0 + 1.25

    return User() if name == "user" else Const()


def execute(plan):
    from collections import Counter

    import numpy as np
    import torch

    from qsim.seams.public import SampleCapture
    from qsim.seams.rng import RngSeam
    from qsim.world import build_state, randomise

    run = Run(plan)
    scfg = plan["config"]["state"]
    rng = RngSeam(run)
    counter = Counter()
    obs_cache, sys_cache = {}, {}
    trace = [scfg["type"], scfg["nv"]]
    big_ops = 0

    def ref_stats(x):
        n = len(x)
        mean = float(np.mean(x))
        var = float(np.var(x, ddof=1)) if n > 1 else float("nan")
        se = float(np.sqrt(var / n)) if n > 1 else float("nan")
        return mean, var, se, n

    def cmp_stats(got, x, what, **detail):
        mean, var, se, n = ref_stats(x)
        # what a numerically stable merge achieves, in the UNITS OF THE DATA (an observable of magnitude 1e-17 is
        # judged as sharply as one of magnitude 1): relative 1e-9 on mean and variance, plus the rounding of block
        # means of magnitude |mean| (eps * |mean| * spread); not mean^2-scaled, so that an estimator on a large
        # constant offset is still judged sharply
        amp = float(np.max(np.abs(x))) if len(x) else 0.0
        v0 = abs(var) if var == var else 0.0
        scale = v0 + 1e-4 * abs(mean) * math.sqrt(v0) + 1e-17 * amp * amp
        mean_tol = 1e-9 * amp
        ok = True
        if got.get("num_samples") != n:
            run.violate("13-count", f"{what}: reported num_samples {got.get('num_samples')}, {n} samples were drawn", **detail)
            ok = False
        gm, gv, gs = float(got["mean"]), float(got["variance"]), float(got["std_error"])
        if (gm != gm) != (mean != mean) or (mean == mean and abs(gm - mean) > mean_tol):
            run.violate("13-mean", f"{what}: mean {gm!r}, one-pass mean of the drawn samples {mean!r}", **detail)
            ok = False
        if (gv != gv) != (var != var) or (var == var and abs(gv - var) > 1e-9 * scale):
            run.violate("13-variance", f"{what}: variance {gv!r}, one-pass unbiased variance {var!r} (n={n})", **detail)
            ok = False
        if (gs != gs) != (se != se) or (se == se and abs(gs * gs - var / n) > 1e-9 * scale):
            run.violate("13-stderr", f"{what}: std_error {gs!r}, expected sqrt(variance/n) = {se!r}", **detail)
            ok = False
        return ok

    with rng:
        rng.stream(plan["sub"])
        state = build_state(scfg)
        nv = state.num_visible
        if scfg.get("frozen_prefix") and nv > 10:
            vb = state.rbm_am.visible_bias.data
            g0 = np.random.Generator(np.random.PCG64(scfg["pseed"]))
            vb[: nv - 6] = torch.from_numpy(np.where(g0.random(nv - 6) < 0.5, -12.0, 12.0))
            vb[0] = 12.0
        rng.arm_global(plan["sub"])
        for j, op in enumerate(plan["ops"]):
            run.log.add("op", op["op"], j)
            if op["op"] == "reparam":
                randomise(state, op["pseed"], op["scale"])
                trace.append("reparam")
                continue
            if op["op"] == "merge":
                try:
                    from qucumber.observables.utils import _update_statistics as upd
                except Exception:  # noqa: BLE001
                    run.inconclusive["merge_routine_missing"] += 1
                    continue
                g = np.random.Generator(np.random.PCG64(op["dseed"]))
                n = sum(op["chunks"])
                if op["kind"] == "normal":
                    data = g.standard_normal(n)
                elif op["kind"] == "const":
                    data = np.full(n, 0.75)
                elif op["kind"] == "binary":
                    data = g.integers(0, 2, n).astype(float) * 2 - 1
                elif op["kind"] == "tiny":
                    data = 1e-17 * g.standard_normal(n)
                else:
                    data = 1e6 + g.standard_normal(n)
                parts = []
                pos = 0
                for c in op["chunks"]:
                    blk = data[pos : pos + c]
                    pos += c
                    if c > 1:
                        v, m = torch.var_mean(torch.tensor(blk, dtype=torch.double))
                        parts.append((m.item(), v.item(), c))
                    else:  # what torch.var_mean reports for one sample: mean = the sample, variance undefined
                        parts.append((float(blk[0]), float("nan"), c))
                try:
                    if op.get("tree") and len(parts) >= 2:
                        # merge partial results pairwise (both sides may be blocks of several samples)
                        cur = [(m, v, c) for m, v, c in parts]
                        while len(cur) > 1:
                            nxt = []
                            for i in range(0, len(cur) - 1, 2):
                                a, b = cur[i], cur[i + 1]
                                nxt.append(tuple(upd(a[0], a[1], a[2], b[0], b[1], b[2])))
                            if len(cur) % 2:
                                nxt.append(cur[-1])
                            cur = nxt
                        mean, var, ln = cur[0]
                    else:
                        mean, var, ln = 0.0, 0.0, 0
                        for m, v, c in parts:
                            mean, var, ln = upd(mean, var, ln, m, v, c)
                except Exception as exc:  # noqa: BLE001
                    run.lib_exception(exc, "pairwise merge", chunks=op["chunks"], min_chunk=min(op["chunks"]), n=n)
                    trace.append(("merge", tuple(op["chunks"]), "raised"))
                    continue
                got = {"mean": mean, "variance": var, "std_error": float(np.sqrt(var / ln)) if ln else float("nan"), "num_samples": ln}
                sc = 1e12 if op["kind"] == "large_offset" else 1.0
                rm, rv, rs, rn = ref_stats(data)
                amp = float(np.max(np.abs(data))) if n else 0.0
                ok = rn == ln and abs(mean - rm) <= 1e-9 * amp
                if not ok:
                    run.violate("13-merge", f"merge of chunks {op['chunks']}: mean/count ({mean!r},{ln}) vs one-pass ({rm!r},{rn})", chunks=op["chunks"])
                elif (var != var) != (rv != rv) or (rv == rv and abs(var - rv) > 1e-9 * (abs(rv) + 1e-4 * abs(rm) * math.sqrt(abs(rv)) + 1e-17 * amp * amp)):
                    run.violate("13-merge", f"merge of chunks {op['chunks']}: variance {var!r} vs one-pass {rv!r}", chunks=op["chunks"], min_chunk=min(op["chunks"]))
                if len(op["chunks"]) >= 3:
                    big_ops += 1
                if 1 in op["chunks"]:
                    run.probes["chunk_of_one"] += 1
                trace.append(("merge", len(op["chunks"]), min(op["chunks"]), op["kind"], bool(op.get("tree"))))
                continue

            if op["op"] == "bomb_stats":
                from qucumber.observables import ObservableBase, SigmaX, SigmaZ, System

                class Bomb(ObservableBase):
                    def __init__(self, at):
                        self.name = "Bomb"
                        self.symbol = "B"
                        self.calls = 0
                        self.at = at

                    def apply(self, nn_state, samples):
                        self.calls += 1
                        if self.calls >= self.at:
                            raise RuntimeError("user observable failed")
                        return samples[:, 0] * 1.0

                zed = obs_cache.get("Z") or obs_cache.setdefault("Z", make_obs("Z", nv, counter))
                rng.stream(op["sub"])
                try:
                    System(zed, Bomb(op["at"]), SigmaX()).statistics(state, num_samples=op["num_samples"], num_chains=op["num_chains"], burn_in=1, steps=1)
                    run.probes["bomb_not_reached"] += 1
                except RuntimeError:
                    run.fault("user_code_raises", "System.statistics")
                except Exception as exc:  # noqa: BLE001
                    run.lib_exception(exc, "System.statistics with a failing user observable")
                rng.check_global()
                trace.append(("bomb", op["at"]))
                continue
            if op["op"] == "from_samples":
                g = np.random.Generator(np.random.PCG64(op["dseed"]))
                smp = torch.tensor(g.integers(0, 2, size=(op["n"], nv)).astype(np.float64), dtype=torch.double)
                keep = smp.clone()
                ob = obs_cache.get(op["obs"][0]) or obs_cache.setdefault(op["obs"][0], make_obs(op["obs"][0], nv, counter))
                try:
                    if op.get("system"):
                        from qucumber.observables import System

                        got = System(ob).statistics_from_samples(state, smp)[ob.name]
                    else:
                        got = ob.statistics_from_samples(state, smp)
                    x = ob.apply(state, keep.clone()).detach().numpy().astype(np.float64).reshape(-1)
                except Exception as exc:  # noqa: BLE001
                    run.lib_exception(exc, "statistics_from_samples", n=op["n"], obs=op["obs"])
                    continue
                cmp_stats(got, x, f"statistics_from_samples[{op['obs'][0]}] on a block of {op['n']} samples", n=op["n"], obs=op["obs"])
                if not torch.equal(smp, keep):
                    run.violate("13-overwrite", "statistics_from_samples modified the samples it was given", n=op["n"])
                if op["n"] > 4096:
                    run.probes["large_block"] += 1
                trace.append(("from_samples", op["obs"][0], op["n"], bool(op.get("system"))))
                continue
            # ---------------- statistics through sampling -----------------------
            names, obs = [], []
            for nm in op["obs"]:
                # the same observable objects are reused by later operations of the run
                ob = obs_cache.get(nm) or obs_cache.setdefault(nm, make_obs(nm, nv, counter))
                names.append(nm)
                obs.append(ob)
            # a System keys observables by name: of two observables with the same name the LATER one is tracked
            # (documented), and it must report exactly what it would report alone
            keep = {}
            for nm, ob in zip(names, obs):
                keep[ob.name] = (nm, ob)
            sys_obs = list(obs)
            names = [v_[0] for v_ in keep.values()]
            obs = [v_[1] for v_ in keep.values()]
            init = None
            init_copy = None
            if "init_rows" in op:
                g = np.random.Generator(np.random.PCG64(op["init_seed"]))
                idt = {"double": torch.double, "float": torch.float32, "long": torch.long}[op.get("init_dtype", "double")]
                init = torch.tensor(g.integers(0, 2, size=(op["init_rows"], nv)).astype(np.float64)).to(idt)
                init_copy = init.clone()
            ns, nc = op["num_samples"], op["num_chains"]
            ity = {"np_int32": np.int32, "np_int64": np.int64}.get(op.get("int_type"))
            ns_arg, nc_arg = (ity(ns), ity(nc)) if ity else (ns, nc)
            chains = op["init_rows"] if init is not None else (min(nc, ns) if nc != 0 else ns)
            want_draws = -(-ns // chains)
            kwargs = dict(num_samples=ns_arg, num_chains=nc_arg, burn_in=op["burn_in"], steps=op["steps"])
            if init is not None:
                kwargs.update(initial_state=init, overwrite=op.get("overwrite", False))
            rng.stream(op["sub"], mode=op["mode"], rare=0.1)
            cap = SampleCapture(run, state)
            res = None
            with cap:
                try:
                    if op["op"] == "sys_stats":
                        from qucumber.observables import System

                        system = sys_cache.get(tuple(op["obs"])) or sys_cache.setdefault(tuple(op["obs"]), System(*sys_obs))
                        res = system.statistics(state, **kwargs)
                    else:
                        if op.get("positional"):
                            res = {obs[0].name: obs[0].statistics(state, ns_arg, nc_arg, op["burn_in"], op["steps"], init, op.get("overwrite", False))}
                        else:
                            res = {obs[0].name: obs[0].statistics(state, **kwargs)}
                except Exception as exc:  # noqa: BLE001
                    run.lib_exception(exc, f"{op['op']}", num_samples=ns, num_chains=nc, chains=chains, obs=names)
            rng.check_global()
            draws = cap.draws
            detail = dict(num_samples=ns, num_chains=nc, chains=chains, burn_in=op["burn_in"], steps=op["steps"], obs=names)
            trace.append((op["op"], tuple(names), ns, nc, chains, op["burn_in"], op["steps"], init is not None, bool(op.get("overwrite")), "ok" if res is not None else "raised"))
            if res is None:
                continue
            if not draws:
                run.inconclusive["sample_seam_bypassed"] += 1
                continue
            # the property fixes the statistics, not the documented choice of the chain count:
            # take the number of chains the first draw actually ran (must equal the user's chains if given)
            if init is None and draws[0]["out"].ndim == 2 and draws[0]["out"].shape[0] != chains and draws[0]["out"].shape[0] >= 1:
                run.probes["chain_count_differs_from_documented"] += 1
                chains = int(draws[0]["out"].shape[0])
                want_draws = -(-ns // chains)
                detail["chains"] = chains
            # ---- draw schedule ---------------------------------------------------
            if len(draws) != want_draws:
                run.violate("13-schedule", f"{len(draws)} draws for num_samples={ns} on {chains} chains, expected ceil = {want_draws}", **detail)
            for i, d in enumerate(draws):
                want_k = op["burn_in"] if i == 0 else op["steps"]
                if d["k"] != want_k:
                    run.violate("13-schedule", f"draw {i} used k={d['k']}, expected {'burn_in' if i == 0 else 'steps'}={want_k}", **detail)
                    break
            # ---- chain continuity ---------------------------------------------------
            d0 = draws[0]
            if init is None:
                if not d0["init_is_none"]:
                    run.violate("13-chains", "first draw did not start from a fresh random state although no initial chains were given", **detail)
                elif d0["out"].shape[0] != chains:
                    run.violate("13-chains", f"first draw ran {d0['out'].shape[0]} chains, expected {chains}", **detail)
            else:
                if d0["init_is_none"] or not np.array_equal(d0["init_before"], init_copy.to(torch.double).numpy()):
                    run.violate("13-chains", "first draw did not start from the user's initial chains", **detail)
            for i in range(1, len(draws)):
                a, b = draws[i - 1], draws[i]
                if b["init_is_none"] or b["init_before"].shape != a["out"].shape or not np.array_equal(b["init_before"], a["out"]):
                    run.violate("13-chains", f"draw {i} did not continue the chains of draw {i - 1}", **detail)
                    break
            if init is not None:
                if not op.get("overwrite", False):
                    if not torch.equal(init, init_copy):
                        run.violate("13-overwrite", "user's initial chains were modified although overwrite=False", **detail)
                elif init.dtype == torch.double:  # tensors that must be converted cannot be updated in place (documented)
                    if not np.array_equal(init.numpy(), draws[-1]["out"]):
                        run.violate("13-overwrite", "overwrite=True but the user's chains do not hold the final chain state", **detail)
            # ---- values --------------------------------------------------------------
            for nm, ob in zip(names, obs):
                if ob.name not in res:
                    run.violate("13-system", f"no statistics reported for observable {ob.name}", **detail)
                    continue
                try:
                    xs = [ob.apply(state, torch.tensor(d["out"], dtype=torch.double)).detach().numpy().astype(np.float64).reshape(-1) for d in draws]
                except Exception as exc:  # noqa: BLE001
                    run.lib_exception(exc, f"apply of {nm}")
                    continue
                x = np.concatenate(xs)
                cmp_stats(res[ob.name], x, f"{op['op']}[{nm}] ({ns} samples requested, {chains} chains, {len(draws)} draws)", **dict(detail, observable=nm))
                if len(x) < ns:
                    run.violate("13-count", f"only {len(x)} samples drawn, {ns} requested", **detail)
            if len(draws) >= 2:
                big_ops += 1
            if chains == 1:
                run.probes["single_chain"] += 1
            if chains > 4096:
                run.probes["large_block"] += 1
            if nc > ns:
                run.probes["chains_gt_samples"] += 1
            if ns % chains:
                run.probes["non_divisor"] += 1
            run.sim["draws"] += len(draws)
            run.sim["gibbs_steps"] += sum(d["k"] for d in draws)
    run.trace = trace
    run.nontrivial = big_ops > 0
    return run.result()


def shrink(plan):
    out = []
    c = plan["config"]["state"]
    for key in ("nv", "nh", "na"):
        if c.get(key, 1) > 1:
            q = copy.deepcopy(plan)
            q["config"]["state"][key] = c[key] - 1
            out.append(q)
    if c["type"] != "positive":
        q = copy.deepcopy(plan)
        q["config"]["state"]["type"] = "positive"
        q["config"]["state"].pop("na", None)
        out.append(q)
    for j, op in enumerate(plan["ops"]):
        if op["op"] in ("reparam", "bomb_stats"):
            continue
        if op["op"] == "merge":
            if len(op["chunks"]) > 1:
                q = copy.deepcopy(plan)
                q["ops"][j]["chunks"] = op["chunks"][:-1]
                out.append(q)
            if op.get("tree"):
                q = copy.deepcopy(plan)
                q["ops"][j]["tree"] = False
                out.append(q)
            if op["kind"] != "binary":
                q = copy.deepcopy(plan)
                q["ops"][j]["kind"] = "binary"
                out.append(q)
            continue
        if op["op"] == "from_samples":
            for n2 in (1, 2, 7, 100, 4097):
                if n2 < op["n"]:
                    q = copy.deepcopy(plan)
                    q["ops"][j]["n"] = n2
                    out.append(q)
            if op.get("system"):
                q = copy.deepcopy(plan)
                q["ops"][j]["system"] = False
                out.append(q)
            continue
        if len(op["obs"]) > 1:
            for i in range(len(op["obs"])):
                q = copy.deepcopy(plan)
                del q["ops"][j]["obs"][i]
                out.append(q)
        elif op["obs"] != ["Z"]:
            q = copy.deepcopy(plan)
            q["ops"][j]["obs"] = ["Z"]
            out.append(q)
        for key, lo in (("num_samples", 1), ("burn_in", 0), ("steps", 0), ("num_chains", 0)):
            if op[key] > lo:
                q = copy.deepcopy(plan)
                q["ops"][j][key] = lo
                out.append(q)
                q = copy.deepcopy(plan)
                q["ops"][j][key] = op[key] - 1
                out.append(q)
        if op.get("init_dtype", "double") != "double":
            q = copy.deepcopy(plan)
            q["ops"][j]["init_dtype"] = "double"
            out.append(q)
        if "init_rows" in op:
            q = copy.deepcopy(plan)
            for k in ("init_rows", "init_seed", "overwrite", "init_dtype"):
                q["ops"][j].pop(k, None)
            out.append(q)
        if op["mode"] != "honest":
            q = copy.deepcopy(plan)
            q["ops"][j]["mode"] = "honest"
            out.append(q)
    return out
