"""C14 - seeded runs are reproducible and evaluation never alters the model.

Simulated: every source of nondeterminism OTHER than the seeded torch
generator (numpy / `random` global states, the clock, the hash seed, a fresh
interpreter), perturbed at op boundaries, inside callbacks and between source
lines of fit.  This is the one check in which the torch generator runs for
real, seeded only through qucumber.set_random_seed.  Oracle: bitwise equality
of per-operation digests of twin runs; parameter digests around every
read-only operation."""
import copy
import json
import os
import subprocess
import sys

from qsim import plan as P
from qsim.core import VERIF_DIR, Run

PROP = "C14"
QUICK_RUNS = 1200
THOROUGH_WAVE = 800
RULE = (
    "one case = one seeded operation history over 1-3 models (construct, reinitialise, sample, observable statistics, fit with "
    "callbacks, save to the simulated disk, gradient methods, rotations, observables, probabilities) executed as twins: A "
    "undisturbed, B with numpy.random / random reseeded and consumed at op boundaries, inside callbacks and between source "
    "lines of fit, with clock jumps; a share of the cases also in a fresh interpreter under another PYTHONHASHSEED; plus a "
    "third run under a different library seed; non-trivial = the history has >= 2 randomness-consuming operations and at least "
    "one perturbation fired; distinct = distinct abstract trace (model types, op kinds, perturbation sites)"
)
COMPONENTS = {
    "real": ["qucumber (all used ops)", "torch global generator seeded via qucumber.set_random_seed", "torch numerics, SGD"],
    "stub": ["filesystem (SimDisk)", "clock (SimClock)", "foreign RNG state (perturbed by the simulator)"],
}
ASSUMPTIONS = [
    "one intra-op thread, same machine, CPU: bitwise equality is claimed for that configuration only",
    "metrics of qucumber.utils.training_statistics are not exercised (scipy is absent from /venv)",
]

READONLY = ("sample", "sample_space", "stats", "apply", "rotate", "save", "grad", "probability", "eval")
EVALS = [
    "psi", "amplitude", "phase", "probability", "normalization", "effective_energy", "effective_energy_gradient",
    "prob_h_given_v", "prob_v_given_latent", "isw", "isn", "isd", "rho", "pi", "pi_grad", "gamma", "gamma_grad",
    "am_grads", "ph_grads", "rotated_gradient", "gradient_1sample", "mixing_term", "partition",
]


def generate(seed, tier):
    r = P.rng_for(seed)
    nm = r.randint(1, 3)
    models = [P.gen_state_cfg(r, max_nv=3, max_nh=3, max_na=2, scales=(1.0,), custom_p=0.0) for _ in range(nm)]
    nops = r.randint(3, 10)
    ops = []
    for _ in range(nops):
        m = r.randrange(nm)
        x = r.random()
        if x < 0.03:
            # the same seeded sequence executed twice on the SAME (reused) model object
            N2 = r.randint(2, 6)
            ops.append({"op": "reseed_repeat", "m": m, "seed2": r.getrandbits(31), "N": N2, "dseed": P.s64(r), "epochs": r.randint(1, 2), "pos_bs": r.choice([1, 2, 3]), "neg_bs": r.choice([None, 2, 3]), "start": r.choice(["reinit", "randomise"])})
        elif x < 0.07:
            # the caller uses a tensor the library handed out (the enumerated basis) as ITS chain buffer, in place
            ops.append({"op": "sample_space", "m": m, "k": r.choice([1, 2, 5])})
        elif x < 0.2:
            ops.append({"op": "sample", "m": m, "k": r.choice([0, 1, 3, 10]), "n": r.randint(1, 8), "given": r.random() < 0.3})
        elif x < 0.35:
            ops.append({"op": "stats", "m": m, "obs": r.choice(["Z", "X", "NN", "SWAP", "sys"]), "num_samples": r.choice([3, 8, 20]), "num_chains": r.choice([0, 2, 5]), "burn_in": r.choice([0, 3]), "steps": r.choice([1, 2])})
        elif x < 0.6:
            N = r.randint(2, 8)
            pos, neg = P.gen_batching(r, N)
            ops.append(
                {
                    "op": "fit",
                    "m": m,
                    "N": N,
                    "dseed": P.s64(r),
                    "epochs": r.randint(1, 3),
                    "pos_bs": pos,
                    "neg_bs": neg,
                    "k": r.choice([1, 2, 5]),
                    "lr": r.choice([0.01, 0.1]),
                    "time": r.random() < 0.3,
                    "with_eval": r.random() < 0.3,
                    "with_saver": r.random() < 0.25,
                    # the same seeded run on a freshly built model with the same parameters must give the same result
                    "twin": r.random() < 0.3,
                    "seed3": r.getrandbits(31),
                }
            )
            if ops[-1]["with_saver"] and r.random() < 0.6:
                # resume from one of the checkpoints the saver wrote
                ops.append({"op": "load", "m": m, "which": -r.randint(1, 2)})
            if r.random() < 0.3:
                ops.append({"op": "seed_sensitivity", "m": m, "s1": r.getrandbits(31), "which": -r.randint(1, 3)})
        elif x < 0.63:
            ops.append({"op": "reinit", "m": m})
        elif x < 0.65:
            ops.append({"op": "randomise", "m": m, "pseed": P.s64(r), "scale": r.choice([1.0, 3.0])})
        elif x < 0.66:
            # a spin pinned by an infinite field (samples correctly; every read-only operation must leave it alone)
            ops.append({"op": "pin_spin", "m": m, "site": r.randrange(0, 4), "sign": r.choice([1, -1])})
        elif x < 0.70:
            ops.append({"op": "save", "m": m})
        elif x < 0.74:
            ops.append({"op": "load", "m": m, "which": r.randrange(0, 8)})
        elif x < 0.82:
            ops.append({"op": "grad", "m": m, "which": r.choice(["gradient", "positive_phase", "batch", "exact"]), "dseed": P.s64(r), "k": r.choice([1, 3])})
        elif x < 0.88:
            ops.append({"op": "rotate", "m": m, "basis": "".join(r.choice("XYZ") for _ in range(models[m]["nv"]))})
        elif x < 0.94:
            ops.append({"op": "apply", "m": m, "obs": r.choice(["Z", "X", "Y", "NN", "SWAP"]), "dseed": P.s64(r)})
        elif x < 0.97:
            ops.append({"op": "probability", "m": m})
        else:
            ops.append({"op": "eval", "m": m, "what": r.choice(EVALS), "form": r.choice(["1d", "2d"]), "expand": r.random() < 0.5, "dseed": P.s64(r)})
    if r.random() < 0.3:
        # re-seeding with a FIXED seed (at top level or from inside a metric during training): from then on the
        # random stream must not remember the seed the run was started with
        ops.insert(r.randrange(0, len(ops) + 1), {"op": "fixed_reseed_probe", "m": r.randrange(nm), "where": r.choice(["top", "metric", "metric"]), "fixed": r.getrandbits(31), "dseed": P.s64(r)})
    # every history also evaluates a few read-only functions in vector and batched call forms
    for _ in range(r.randint(1, 4)):
        ops.insert(r.randrange(0, len(ops) + 1), {"op": "eval", "m": r.randrange(nm), "what": r.choice(EVALS), "form": r.choice(["1d", "2d"]), "expand": r.random() < 0.5, "dseed": P.s64(r)})
    nops = len(ops)
    # perturbation schedule for twin B
    perturb = []
    for _ in range(r.randint(1, 6)):
        w = r.random()
        if w < 0.4:
            where = ["op", r.randrange(0, nops + 1)]
        elif w < 0.7:
            where = ["event", r.randrange(0, 40)]
        else:
            where = ["line", r.randrange(0, 300)]
        perturb.append({"where": where, "what": r.choice(["np_seed", "np_draw", "py_seed", "py_draw", "all"]), "x": r.getrandbits(31)})
    fresh_share = 0.05 if tier == "thorough" else 0.03
    return {
        "property": PROP,
        "run_seed": seed,
        "config": {"models": models, "lib_seed": (r.getrandbits(31) if r.random() < 0.85 else r.choice([0, 1, -1, -2, 2 ** 31 - 1, 2 ** 32 + 5, 2 ** 61 - 2, 2 ** 61 - 1, 2 ** 61, 2 ** 63 - 1])), "fresh": r.random() < fresh_share, "hashseed": r.choice([1, 7, 12345, 2 ** 31]), "np_init": r.getrandbits(31), "randomise_first": r.random() < 0.5, "seed_gpu": r.random() < 0.3, "seed_positional": r.random() < 0.3},
        "ops": ops,
        "perturb": perturb,
    }


def _perturb(what, x):
    import random

    import numpy as np

    if what in ("np_seed", "all"):
        np.random.seed(x)
    if what in ("np_draw", "all"):
        np.random.random(7)
        np.random.permutation(5)
    if what in ("py_seed", "all"):
        random.seed(x)
    if what in ("py_draw", "all"):
        random.random()
        random.shuffle(list(range(5)))


def run_history(plan, perturbed, lib_seed, run=None):
    """Execute the op history once.  Returns {digests, readonly, errors, fired}.
    Pure function of (plan, perturbed, lib_seed) and the code under test."""
    import random
    import warnings

    import numpy as np
    import torch

    import qucumber
    from qsim.core import jdigest, state_digest, tdigest
    from qsim.seams.clock import SimClock
    from qsim.seams.disk import SimDisk
    from qsim.train import run_fit
    from qsim.world import build_data, new_state, randomise
    from qucumber.callbacks import MetricEvaluator
    from qucumber.observables import SWAP, NeighbourInteraction, SigmaX, SigmaY, SigmaZ, System
    from qucumber.utils import unitaries

    run = run or Run(plan)
    c = plan["config"]
    digests = []
    readonly = []
    errors = []
    fired = {"n": 0, "sites": []}
    sched = plan["perturb"] if perturbed else []

    def fire(kind, idx):
        for p in sched:
            if p["where"][0] == kind and p["where"][1] == idx:
                _perturb(p["what"], p["x"])
                fired["n"] += 1
                fired["sites"].append(f"{kind}:{idx}")

    # foreign RNGs start from plan-decided states in both twins (the perturbations make them differ)
    np.random.seed(c["np_init"])
    random.seed(c["np_init"])
    warnings.simplefilter("ignore")
    def seed_library(sd):
        # legal call forms of the seeding call (this machine has no GPU; gpu=True must still seed the CPU generator)
        if c.get("seed_positional"):
            qucumber.set_random_seed(sd, True, bool(c.get("seed_gpu")), True)
        else:
            qucumber.set_random_seed(sd, cpu=True, gpu=bool(c.get("seed_gpu")), quiet=True)

    def mix(x):
        # re-seeding in the middle of a history still depends on the library seed of the run
        return (int(x) + int(lib_seed)) & 0x7FFFFFFF

    seed_library(lib_seed)
    fixed_probes = []
    local = []
    models = []
    for mc in c["models"]:
        try:
            models.append(new_state(mc["type"], mc["nv"], mc["nh"], mc.get("na")))
        except Exception as exc:  # noqa: BLE001
            errors.append(("construct", repr(exc)))
            models.append(None)
    digests.append(("construct", [state_digest(m) if m is not None else None for m in models]))
    if c.get("randomise_first"):
        for i, m in enumerate(models):
            if m is not None:
                randomise(m, c["np_init"] + i, 2.0)
    disk = SimDisk(run)
    bufs = {}
    saved = [[] for _ in models]
    ev_global = {"n": 0}
    line_base = {"n": 0}

    def obs_of(name):
        return {"Z": SigmaZ, "X": SigmaX, "Y": SigmaY}[name]() if name in "ZXY" else (NeighbourInteraction(c=1) if name == "NN" else SWAP([0]))

    def global_state():
        # process-wide numeric state a library call has no business changing
        denormals_alive = (torch.tensor([1e-310], dtype=torch.double) * 1.0).item() != 0.0
        return (str(torch.get_default_dtype()), torch.is_grad_enabled(), torch.get_num_threads(), denormals_alive,
                tuple(sorted(np.geterr().items())), torch.are_deterministic_algorithms_enabled())

    g0 = global_state()
    with disk:
        for j, op in enumerate(plan["ops"]):
            fire("op", j)
            st = models[op["m"]]
            if st is None:
                digests.append((op["op"], None))
                continue
            mc = c["models"][op["m"]]
            before = state_digest(st)
            kind = op["op"]
            out = None
            try:
                if kind == "sample":
                    if op.get("given"):
                        g = np.random.Generator(np.random.PCG64(op["n"] * 977 + op["k"]))
                        init = torch.tensor(g.integers(0, 2, size=(op["n"], mc["nv"])).astype(np.float64), dtype=torch.double)
                        out = tdigest(st.sample(op["k"], initial_state=init))
                    else:
                        out = tdigest(st.sample(op["k"], num_samples=op["n"]))
                elif kind == "reseed_repeat":
                    dcfg = {"N": op["N"], "nv": mc["nv"], "dseed": op["dseed"], "form": "tensor", "basis_mode": "mixed"}
                    din, _, bases = build_data(dcfg, with_bases=mc["type"] != "positive")

                    def sequence():
                        seed_library(mix(op["seed2"]))
                        if op["start"] == "reinit":
                            st.reinitialize_parameters()
                        else:
                            randomise(st, op["dseed"], 1.0)
                        kw = {} if bases is None else {"input_bases": bases}
                        st.fit(din, epochs=op["epochs"], pos_batch_size=op["pos_bs"], neg_batch_size=op["neg_bs"], k=1, lr=0.05, **kw)
                        return (state_digest(st), tdigest(st.sample(2, num_samples=5)))

                    d1 = sequence()
                    d2 = sequence()
                    if d1 != d2:
                        local.append((j, kind, "the same seeded sequence (seed, reinitialise, fit, sample) executed twice on the same model object gave different results"))
                    out = d1
                elif kind == "sample_space":
                    space = st.generate_hilbert_space()
                    res = st.sample(op["k"], initial_state=space, overwrite=True)
                    out = (tdigest(res), tdigest(space))
                elif kind == "stats":
                    kw = dict(num_samples=op["num_samples"], num_chains=op["num_chains"], burn_in=op["burn_in"], steps=op["steps"])
                    if op["obs"] == "sys":
                        res = System(SigmaZ(), SigmaX(), NeighbourInteraction(c=1)).statistics(st, **kw)
                    else:
                        res = obs_of(op["obs"]).statistics(st, **kw)
                    out = repr(sorted((k, repr(v)) for k, v in _flatten(res)))
                elif kind == "fit":
                    dcfg = {"N": op["N"], "nv": mc["nv"], "dseed": op["dseed"], "form": "tensor", "basis_mode": "mixed"}
                    din_new, _, bases_new = build_data(dcfg, with_bases=mc["type"] != "positive")
                    # the caller keeps ONE buffer per dataset size and refills it in place for every training run
                    key_ = (op["m"], op["N"])
                    if key_ in bufs:
                        din, bases = bufs[key_]
                        din.copy_(din_new)
                        if bases is not None:
                            bases[...] = bases_new
                    else:
                        din, bases = din_new, bases_new
                        bufs[key_] = (din, bases)
                    evd = []
                    twin_snap = None
                    if op.get("twin"):
                        twin_snap = {net: {k_: v_.clone() for k_, v_ in getattr(st, net).state_dict().items()} for net in st.networks}
                        seed_library(mix(op["seed3"]))

                    def handler(kind_, args, idx, nn_state, seq):
                        fire("event", ev_global["n"])
                        ev_global["n"] += 1
                        evd.append((kind_, tuple(args), state_digest(nn_state)))

                    actions = []
                    for p in sched:
                        if p["where"][0] == "line":
                            n = p["where"][1] - line_base["n"]
                            if n >= 0:
                                def act(site, p=p):
                                    _perturb(p["what"], p["x"])
                                    fired["n"] += 1
                                    fired["sites"].append("line:" + site)

                                actions.append((("ordinal", n), act))
                    extra = []
                    mvals = []
                    if op.get("with_eval"):
                        def metric(nn_state, **kw):
                            # a metric that itself samples the model (consumes the library's generator)
                            v = float(nn_state.sample(2, num_samples=4).sum())
                            mvals.append(v)
                            return v

                        extra = [MetricEvaluator(1, {"s": metric})]
                    if op.get("with_saver"):
                        from qucumber.callbacks import ModelSaver

                        extra = extra + [ModelSaver(1, f"c14ck{op['m']}", "ck{}", save_initial=False, metadata={"j": j})]
                        for e_ in range(1, op["epochs"] + 1):
                            saved[op["m"]].append(f"/sim/cwd/c14ck{op['m']}/ck{e_}")
                    tc = {"epochs": op["epochs"], "starting_epoch": 1, "pos_bs": op["pos_bs"], "neg_bs": op["neg_bs"], "k": op["k"], "lr": op["lr"], "time": op.get("time", False)}
                    clock = SimClock(run, op["dseed"] ^ (1 if perturbed else 0), jumpy=perturbed)
                    with clock:
                        info = run_fit(run, st, tc, din, bases, n_wit=1, handler=handler, cbs_before=extra, async_actions=actions, snapshot=False)
                    line_base["n"] += info["lines"]
                    if info["raised"] is not None:
                        errors.append(("fit", repr(info["raised"])))
                    st.stop_training = False
                    out = (evd, mvals, state_digest(st))
                    if twin_snap is not None and info["raised"] is None:
                        fresh = new_state(mc["type"], mc["nv"], mc["nh"], mc.get("na"), unitary_dict=({k_: v_.clone() for k_, v_ in st.unitary_dict.items()} if mc["type"] != "positive" else None))
                        for net in fresh.networks:
                            getattr(fresh, net).load_state_dict(twin_snap[net])
                        seed_library(mix(op["seed3"]))
                        kw2 = {} if bases is None else {"input_bases": bases.copy()}
                        cbs2 = []
                        if op.get("with_eval"):
                            cbs2 = [MetricEvaluator(1, {"s": lambda nn_state, **kw: float(nn_state.sample(2, num_samples=4).sum())})]
                        fresh.fit(din.clone(), epochs=op["epochs"], pos_batch_size=op["pos_bs"], neg_batch_size=op["neg_bs"], k=op["k"], lr=op["lr"], callbacks=cbs2, **kw2)
                        if state_digest(fresh) != state_digest(st):
                            local.append((j, kind, "the same seeded training run gave different parameters on the long-lived model than on a freshly built model with identical parameters and data (the result depends on the object's history)"))
                elif kind == "reinit":
                    st.reinitialize_parameters()
                    out = state_digest(st)
                elif kind == "pin_spin":
                    vb = st.rbm_am.visible_bias.data
                    vb[op["site"] % vb.shape[0]] = float("inf") * op["sign"]
                    out = state_digest(st)
                elif kind == "fixed_reseed_probe":
                    if op["where"] == "top":
                        seed_library(op["fixed"])
                    else:
                        dcfg = {"N": 3, "nv": mc["nv"], "dseed": op["dseed"], "form": "tensor", "basis_mode": "allZ"}
                        din2, _, bases2 = build_data(dcfg, with_bases=mc["type"] != "positive")

                        def reseeding_metric(nn_state, **kw):
                            seed_library(op["fixed"])
                            return 0.0

                        kw2 = {} if bases2 is None else {"input_bases": bases2}
                        st.fit(din2, epochs=2, pos_batch_size=2, k=1, lr=0.0, callbacks=[MetricEvaluator(2, {"m": reseeding_metric})], **kw2)
                    fixed_probes.append(tdigest(st.sample(0, num_samples=64)))
                    out = fixed_probes[-1]
                elif kind == "randomise":  # the user sets parameters (non-zero biases), same in both twins
                    randomise(st, op["pseed"], op["scale"])
                    out = state_digest(st)
                elif kind == "save":
                    path = f"/c14/m{op['m']}_{j}.pt"
                    st.save(path, {"j": j})
                    saved[op["m"]].append(path)
                    out = len(disk.files[path])
                elif kind == "seed_sensitivity":
                    # seed, (re)load a checkpoint if one exists, draw 64 x n_v fair coins - under two seeds and twice under the first
                    path = None
                    if saved[op["m"]]:
                        cand = saved[op["m"]][op["which"] % len(saved[op["m"]])]
                        path = cand if cand in disk.files else None

                    def seq(sd):
                        seed_library(sd)
                        if path is not None:
                            st.load(path)
                        return tdigest(st.sample(0, num_samples=64))

                    s1 = mix(op["s1"])
                    d1, d2, d1b = seq(s1), seq((s1 + 1) & 0x7FFFFFFF), seq(s1)
                    if d1 != d1b:
                        local.append((j, kind, "seed, load, draw repeated under the same seed gave different draws"))
                    if d1 == d2:
                        local.append((j, kind, "seed, load a checkpoint, draw: two different library seeds gave identical draws" if path else "two different library seeds gave identical draws"))
                    out = (d1, path)
                elif kind == "load":
                    if saved[op["m"]]:
                        path = saved[op["m"]][op["which"] % len(saved[op["m"]])]
                        if path in disk.files:
                            st.load(path)
                    out = state_digest(st)
                elif kind == "grad":
                    dcfg = {"N": 4, "nv": mc["nv"], "dseed": op["dseed"], "form": "tensor", "basis_mode": "mixed"}
                    din, _, bases = build_data(dcfg, with_bases=mc["type"] != "positive")
                    din_keep, bases_keep = din.clone(), (None if bases is None else bases.copy())
                    if op["which"] == "gradient":
                        g = st.gradient(din, bases) if bases is not None else st.gradient(din)
                    elif op["which"] == "positive_phase":
                        g = st.positive_phase_gradients(din, bases_batch=bases) if bases is not None else st.positive_phase_gradients(din)
                    elif op["which"] == "batch":
                        g = st.compute_batch_gradients(op["k"], din, din[:2], bases) if bases is not None else st.compute_batch_gradients(op["k"], din, din[:2])
                    else:
                        space = st.generate_hilbert_space()
                        g = st.compute_exact_gradients(din, space, bases_batch=bases) if bases is not None else st.compute_exact_gradients(din, space)
                    out = [tdigest(x) if isinstance(x, torch.Tensor) else repr(x) for x in g]
                    if not torch.equal(din, din_keep) or (bases is not None and not np.array_equal(bases, bases_keep)):
                        readonly.append((j, kind, f"the gradient method '{op['which']}' modified the data / start states it was given"))
                elif kind == "rotate":
                    space = st.generate_hilbert_space()
                    if mc["type"] == "density":
                        out = tdigest(unitaries.rotate_rho(st, op["basis"], space))
                    elif mc["type"] == "complex":
                        out = tdigest(unitaries.rotate_psi(st, op["basis"], space))
                    else:
                        out = tdigest(st.psi(space))
                elif kind == "apply":
                    g = np.random.Generator(np.random.PCG64(op["dseed"]))
                    smp = torch.tensor(g.integers(0, 2, size=(4, mc["nv"])).astype(np.float64), dtype=torch.double)
                    keep = smp.clone()
                    out = tdigest(obs_of(op["obs"]).apply(st, smp))
                    if not torch.equal(smp, keep):
                        readonly.append((j, kind, "observable modified the samples it was given"))
                elif kind == "eval":
                    out = _eval(st, mc, op, np, torch, tdigest)
                elif kind == "probability":
                    space = st.generate_hilbert_space()
                    out = (tdigest(st.probability(space)), repr(float(st.normalization(space))))
            except Exception as exc:  # noqa: BLE001
                errors.append((kind, f"{type(exc).__name__}: {exc}"[:200]))
                out = ("raised", type(exc).__name__)
            if kind in READONLY and state_digest(st) != before:
                readonly.append((j, kind, f"{kind} ({op.get('which') or op.get('obs') or ''}) changed model parameters"))
            digests.append((kind, out))
            g1 = global_state()
            if g1 != g0:
                local.append((j, kind, f"the operation left process-wide numeric state changed: {g0} -> {g1} (later results in this process depend on whether it ran)"))
                g0 = g1
        fire("op", len(plan["ops"]))
        final = [tdigest(m_.sample(0, num_samples=64)) if m_ is not None else None for m_ in models]
    return {"fixed_probes": fixed_probes, "final_draws": final, "digests": digests, "readonly": readonly, "errors": errors, "fired": fired, "local": local}


def _eval(st, mc, op, np, torch, tdigest):
    """One read-only evaluation in vector (1-D) or batched (2-D) call form.  A call form the
    library does not support may raise; that is recorded, not judged - the rule here is only that
    no parameter changes and that the value is reproducible."""
    g = np.random.Generator(np.random.PCG64(op["dseed"]))
    nv = mc["nv"]
    B = 3
    shape = (nv,) if op["form"] == "1d" else (B, nv)
    v = torch.tensor(g.integers(0, 2, size=shape).astype(np.float64), dtype=torch.double)
    vp = torch.tensor(g.integers(0, 2, size=shape).astype(np.float64), dtype=torch.double)
    rbm = st.rbm_am
    w = op["what"]
    typ = mc["type"]
    ex = bool(op.get("expand"))
    try:
        if w == "psi":
            r = st.psi(v) if typ != "density" else st.rho(v, expand=False)
        elif w == "amplitude":
            r = st.amplitude(v) if typ != "density" else st.probability(v)
        elif w == "phase":
            r = st.phase(v) if typ != "density" else st.rbm_ph.effective_energy(v)
        elif w == "probability":
            r = st.probability(v)
        elif w == "normalization":
            r = st.normalization(st.generate_hilbert_space())
        elif w == "partition":
            r = rbm.partition(st.generate_hilbert_space())
        elif w == "effective_energy":
            r = rbm.effective_energy(v)
        elif w == "effective_energy_gradient":
            r = rbm.effective_energy_gradient(v, reduce=ex)
        elif w == "prob_h_given_v":
            r = rbm.prob_h_given_v(v)
        elif w == "prob_v_given_latent":
            h = torch.tensor(g.integers(0, 2, size=shape[:-1] + (rbm.num_hidden,)).astype(np.float64), dtype=torch.double)
            if typ == "density":
                a = torch.tensor(g.integers(0, 2, size=shape[:-1] + (rbm.num_aux,)).astype(np.float64), dtype=torch.double)
                r = rbm.prob_v_given_ha(h, a)
            else:
                r = rbm.prob_v_given_h(h)
        elif w == "isw":
            r = st.importance_sampling_weight(vp, v)
        elif w == "isn":
            r = st.importance_sampling_numerator(vp, v)
        elif w == "isd":
            r = st.importance_sampling_denominator(v)
        elif w == "rho":
            r = st.rho(v, vp, expand=ex) if typ == "density" else st.psi(vp)
        elif w == "pi":
            r = st.pi(v, vp, expand=ex) if typ == "density" else st.psi(v)
        elif w == "pi_grad":
            r = st.pi_grad(v, vp, phase=ex, expand=False) if typ == "density" else rbm.effective_energy_gradient(v, reduce=False)
        elif w == "gamma":
            r = rbm.gamma(v, vp, eta=1 if ex else -1, expand=ex) if typ == "density" else rbm.effective_energy(vp)
        elif w == "gamma_grad":
            r = rbm.gamma_grad(v, vp, eta=1 if ex else -1, expand=ex) if typ == "density" else rbm.effective_energy_gradient(vp)
        elif w == "mixing_term":
            r = rbm.mixing_term(v) if typ == "density" else rbm.prob_h_given_v(vp)
        elif w == "am_grads":
            r = st.am_grads(v if v.dim() == 2 else v.unsqueeze(0)) if typ != "positive" else rbm.effective_energy_gradient(v)
        elif w == "ph_grads":
            r = st.ph_grads(v if v.dim() == 2 else v.unsqueeze(0)) if typ != "positive" else rbm.effective_energy_gradient(v)
        elif w == "rotated_gradient":
            basis = np.array([["X", "Y", "Z"][int(b)] for b in g.integers(0, 3, size=nv)])
            if typ == "positive":
                r = st.gradient(v)
            else:
                r = st.rotated_gradient(basis, v if v.dim() == 2 else v.unsqueeze(0))
        elif w == "gradient_1sample":
            basis = [["X", "Y", "Z"][int(b)] for b in g.integers(0, 3, size=nv)]
            if typ == "positive":
                r = st.gradient(v)
            elif v.dim() == 1:
                r = st.gradient(v, basis)
            else:
                r = st.gradient(v, np.array([basis] * v.shape[0]))
        else:
            r = None
    except Exception as exc:  # noqa: BLE001
        return ("raised", type(exc).__name__)
    if isinstance(r, (list, tuple)):
        return [tdigest(x) if isinstance(x, torch.Tensor) else repr(x) for x in r]
    return tdigest(r) if isinstance(r, torch.Tensor) else repr(r)


def _flatten(d, prefix=""):
    for k, v in d.items():
        if isinstance(v, dict):
            yield from _flatten(v, prefix + str(k) + ".")
        else:
            yield prefix + str(k), v


def _first_diff(a, b):
    for i, (x, y) in enumerate(zip(a, b)):
        if _norm(x) != _norm(y):
            return i, x[0]
    if len(a) != len(b):
        return min(len(a), len(b)), "length"
    return None


def _norm(x):
    return json.loads(json.dumps(x, default=repr))


def execute(plan):
    run = Run(plan)
    c = plan["config"]
    A = run_history(plan, False, c["lib_seed"], run)
    B = run_history(plan, True, c["lib_seed"], run)
    trace = [[m["type"] for m in c["models"]], [op["op"] for op in plan["ops"]]]
    for e in A["errors"]:
        if "Expected p_in >= 0 && p_in <= 1" in e[1]:
            run.inconclusive["diverged_nan_probability"] += 1
            continue
        run.violate(f"EXC-op:{e[0]}", f"operation {e[0]} raised {e[1]}")
    d = _first_diff(A["digests"], B["digests"])
    if d is not None:
        i, kind = d
        run.violate(
            "14-repro",
            f"same library seed, foreign RNG/clock state perturbed: first divergent operation is #{i - 1} ({kind}); perturbations fired at {B['fired']['sites'][:6]}",
            op=kind,
            sites=B["fired"]["sites"][:6],
        )
    for (j, kind, msg) in A["readonly"]:
        run.violate("14-readonly", f"op {j}: {msg}", op=kind)
    for (j, kind, msg) in A.get("local", []):
        run.violate("14-seed" if "different library seeds" in msg else ("14-global-state" if "process-wide" in msg else "14-repro"), f"op {j}: {msg}", op=kind)
    # different library seed -> different draws
    import torch

    import qucumber
    from qsim.core import tdigest
    from qsim.world import new_state

    def probe(seed):
        qucumber.set_random_seed(seed, cpu=True, gpu=bool(c.get("seed_gpu")), quiet=True)
        st = new_state("positive", 4, 4)
        return tdigest(st.rbm_am.weights.data), tdigest(st.sample(0, num_samples=64))

    if any(op["op"] in ("load", "fixed_reseed_probe") for op in plan["ops"]) or c.get("seed_gpu"):
        # the whole history again under another library seed: the 64 x n_v fair coins drawn at its end must differ
        Cc = run_history(plan, False, c["lib_seed"] + 1, run)
        if not Cc["errors"] and not A["errors"]:
            same = [i for i, (x_, y_) in enumerate(zip(A["final_draws"], Cc["final_draws"])) if x_ is not None and x_ == y_]
            if same and not any(op["op"] == "fixed_reseed_probe" for op in plan["ops"]):  # (a fixed re-seed makes the streams equal on purpose)
                run.violate("14-seed", f"after the same history under two different library seeds the final uniform draws of model(s) {same} are identical", op="final-draw")
            if A["fixed_probes"] != Cc["fixed_probes"]:
                run.violate("14-repro", "after re-seeding with a fixed seed (at top level or from inside a metric) the next uniform draw still depends on the seed the run was started with", op="fixed_reseed_probe")
        run.probes["third_run_other_seed"] += 1
    p1, p2, p3 = probe(c["lib_seed"]), probe(c["lib_seed"] + 1), probe(c["lib_seed"])
    if p1 != p3:
        run.violate("14-repro", "re-seeding with the same seed did not reproduce initial weights / a 64-row uniform draw", op="seed-probe")
    if p1[0] == p2[0] or p1[1] == p2[1]:
        run.violate("14-seed", "a different library seed produced identical initial weights or identical draws", op="seed-probe")
    # fresh interpreter twin under another PYTHONHASHSEED
    if c.get("fresh"):
        env = dict(os.environ)
        env["PYTHONHASHSEED"] = str(c["hashseed"])
        env["PYTHONDONTWRITEBYTECODE"] = "1"
        env["QSIM_REPO"] = os.environ.get("QSIM_REPO", "/repo")
        pr = subprocess.run(
            [sys.executable, "-B", os.path.join(VERIF_DIR, "checks", "c14_fresh.py")],
            input=json.dumps(plan),
            capture_output=True,
            text=True,
            env=env,
            timeout=600,
        )
        if pr.returncode != 0:
            from qsim.core import HarnessError

            raise HarnessError("fresh-interpreter twin failed:\n" + pr.stderr[-2000:])
        F = json.loads(pr.stdout.strip().splitlines()[-1])
        d = _first_diff(A["digests"], F["digests"])
        run.probes["fresh_interpreter_twins"] += 1
        run.fault("hashseed", str(c["hashseed"]))
        if d is not None:
            i, kind = d
            run.violate("14-repro", f"fresh interpreter under PYTHONHASHSEED={c['hashseed']} with foreign RNGs perturbed: first divergent operation is #{i - 1} ({kind})", op=kind, fresh=True)
    for s in B["fired"]["sites"]:
        run.fault("foreign_rng", s.split(":")[0] + (":" + s.split(":", 1)[1] if s.startswith("line") else ""))
    consuming = sum(1 for op in plan["ops"] if op["op"] in ("seed_sensitivity", "reseed_repeat", "sample", "sample_space", "stats", "fit", "reinit") or (op["op"] == "grad" and op["which"] == "batch"))
    run.trace = trace + [sorted(set(s.split(":")[0] for s in B["fired"]["sites"]))]
    run.nontrivial = consuming >= 2 and B["fired"]["n"] >= 1
    run.sim["ops"] += 2 * len(plan["ops"])
    return run.result()


def shrink(plan):
    out = []
    if plan.get("perturb"):
        for i in range(len(plan["perturb"])):
            q = copy.deepcopy(plan)
            del q["perturb"][i]
            out.append(q)
    c = plan["config"]
    if c.get("fresh"):
        q = copy.deepcopy(plan)
        q["config"]["fresh"] = False
        out.append(q)
    for i, m in enumerate(c["models"]):
        if m["type"] != "positive":
            q = copy.deepcopy(plan)
            q["config"]["models"][i]["type"] = "positive"
            q["config"]["models"][i].pop("na", None)
            out.append(q)
        for key in ("nv", "nh", "na"):
            if m.get(key, 1) > 1:
                q = copy.deepcopy(plan)
                q["config"]["models"][i][key] = 1
                if key == "nv":
                    for op in q["ops"]:
                        if op["op"] == "rotate" and op["m"] == i:
                            op["basis"] = op["basis"][:1]
                out.append(q)
    for j, op in enumerate(plan["ops"]):
        if op["op"] == "fit":
            for key, lo in (("epochs", 1), ("N", 2), ("k", 1)):
                if op[key] > lo:
                    q = copy.deepcopy(plan)
                    q["ops"][j][key] = lo
                    out.append(q)
            for key in ("time", "with_eval"):
                if op.get(key):
                    q = copy.deepcopy(plan)
                    q["ops"][j][key] = False
                    out.append(q)
    return out
