"""C12 - training follows the documented event protocol and honours stop
requests.  Simulated: the instant of cancellation (through a callback at any
event from any list position, or asynchronously between two source lines of
fit), callback order, the clock read by Timer."""
from math import ceil

from qsim import plan as P
from qsim.core import Run, state_digest

PROP = "C12"
QUICK_RUNS = 8000
RULE = (
    "one case = one seeded training run (state type, sizes, N, batch sizes, epoch range, 1-4 witness "
    "callbacks in class/Lambda flavour, timer on/off, optional LR scheduler) with a stop schedule "
    "(none | via callback at event j from list position i | asynchronous between source lines of fit | "
    "preset | two requests); non-trivial = at least one stop request fired or the run has >= 2 epochs; "
    "distinct = distinct abstract trace (event kinds + stop landing site/window/callback index)"
)
COMPONENTS = {
    "real": ["qucumber (all)", "torch numerics", "torch.optim.SGD", "torch.optim.lr_scheduler.StepLR", "qucumber.callbacks.Timer/LambdaCallback/CallbackList"],
    "stub": ["torch.bernoulli/randn/randperm/randint (seeded stream)", "time.time in qucumber.callbacks.timer (SimClock)", "stdout"],
}
ASSUMPTIONS = [
    "asynchronous requests land between source lines of NeuralStateBase.fit (pure-Python frame), not inside torch kernels",
    "requests that land in a gap (after a batch-end/epoch-end dispatch returned) are held to the bounded rule S1 only",
]


def n_events(tc, N):
    ne = max(0, tc["epochs"] - tc["starting_epoch"] + 1)
    nb = ceil(N / tc["pos_bs"])
    return 2 + ne * (2 + 2 * nb)


def generate(seed, tier):
    r = P.rng_for(seed)
    big = tier == "thorough"
    scfg = P.gen_state_cfg(r, max_nv=3 if not big else 4, max_nh=3)
    dcfg = P.gen_data_cfg(r, scfg, max_N=9 if not big else 12)
    N = dcfg["N"]
    pos, neg = P.gen_batching(r, N)
    se = r.choice([1, 1, 1, 2, 3, 5, 0, -2])  # epoch numbering may start anywhere
    span = r.choice([0, 1, 1, 2, 2, 3]) if not big else r.choice([0, 1, 2, 3, 4])
    epochs = se - 1 + span
    if r.random() < 0.05:
        epochs = se - 2  # strictly empty range
    tc = {
        "epochs": epochs,
        "starting_epoch": se,
        "pos_bs": pos,
        "neg_bs": neg,
        "k": r.choice([0, 1, 1, 2]),
        "lr": r.choice([1e-3, 0.1, 1.0]),
        "time": r.random() < 0.4,
        "call_form": r.choice(["keyword", "keyword", "positional"]),
    }
    n_wit = r.randint(1, 4)
    flav = [r.choice(["class", "class", "lambda", "sized"]) for _ in range(n_wit)]
    total = n_events(tc, N)
    faults = []
    m = r.random()

    def cb_fault():
        return {"kind": "stop_cb", "event": r.randrange(0, total + 1), "cb": r.randrange(0, n_wit)}

    def async_fault():
        if r.random() < 0.6:
            return {"kind": "stop_async", "addr": ["after", r.randrange(-1, total), r.randrange(0, 14)]}
        # uniform ordinal; a run has roughly 25 set-up lines + ~9 per batch + ~5 per epoch
        ne = max(0, tc["epochs"] - tc["starting_epoch"] + 1)
        nb = ceil(N / tc["pos_bs"])
        est = 30 + ne * (6 + nb * 10)
        return {"kind": "stop_async", "addr": ["ordinal", r.randrange(0, est)]}

    if m < 0.24:
        pass
    elif m < 0.28:
        # user code fails in the middle of the run; the run after it must be a normal one
        faults.append({"kind": "raise_cb", "event": r.randrange(0, total), "cb": r.randrange(0, n_wit)})
    elif m < 0.58:
        faults.append(cb_fault())
    elif m < 0.88:
        faults.append(async_fault())
    elif m < 0.92:
        faults.append({"kind": "stop_preset"})
    else:
        faults.append(r.choice([cb_fault, async_fault])())
        faults.append(r.choice([cb_fault, async_fault])())
    return {
        "property": PROP,
        "run_seed": seed,
        "sub": P.s64(r),
        "config": {
            "state": scfg,
            "data": dcfg,
            "train": tc,
            "n_wit": n_wit,
            "flavours": flav,
            "scheduler": r.random() < 0.3,
            "jumpy_clock": r.random() < 0.5,
            "rng_mode": r.choice(["honest", "honest", "rare"]),
            # if the first run ends without a stop, training is continued on the same state
            "continue": r.choice([None, None, None, {"span": r.randint(0, 2), "gap": r.choice([0, 0, 1]), "replace": r.choice([[], [], [r.randrange(0, n_wit)]])}]),
            # how the caller hands over its callbacks (a CallbackList is re-used, edited in place, by a continued run)
            "container": r.choice(["list", "list", "tuple", "iterator", "CallbackList", "CallbackList"]),
            # what the witness hooks return (ignored by a correct dispatcher)
            "returns": [r.choice([None, None, True, 1, ["x"], 0]) for _ in range(n_wit)],
            # an untrained, perfectly symmetric state (all parameters zero): rotated-basis outcomes of zero
            # amplitude make gradients non-finite; the event protocol must not care (k = 0 keeps sampling out of it)
            "zero_params": r.random() < 0.04,
        },
        "faults": faults,
    }


def execute(plan):
    import torch

    from qsim.models import protocol
    from qsim.seams.clock import SimClock
    from qsim.seams.rng import RngSeam
    from qsim.train import run_fit
    from qsim.world import build_data, build_state

    run = Run(plan)
    cfg = plan["config"]
    tc = cfg["train"]
    rng = RngSeam(run)
    with rng:
        rng.stream(plan["sub"], mode=cfg.get("rng_mode", "honest"), rare=0.05)
        state = build_state(cfg["state"])
        data_in, data_np, bases = build_data(cfg["data"], with_bases=cfg["state"]["type"] != "positive")
        if cfg.get("zero_params"):
            from qsim.world import randomise

            randomise(state, 1, 0.0)
            tc = dict(tc, k=0)
        rng.arm_global(plan["sub"])
        before = state_digest(state)
        sched = sargs = None
        if cfg.get("scheduler"):
            sched, sargs = torch.optim.lr_scheduler.StepLR, {"step_size": 1, "gamma": 0.5}
        clock = SimClock(run, plan["sub"], jumpy=cfg.get("jumpy_clock", False))
        with clock:
            info = run_fit(
                run,
                state,
                tc,
                data_in,
                bases,
                n_wit=cfg["n_wit"],
                flavours=cfg.get("flavours"),
                faults=plan.get("faults", ()),
                scheduler=sched,
                scheduler_args=sargs,
                container=cfg.get("container", "list"),
                returns=cfg.get("returns"),
            )
            aborted = False
            if info["raised"] is not None and type(info["raised"]).__name__ == "UserAbort":
                # user code failed inside a callback: fit lets the exception through; the state must stay usable
                aborted = True
                info["raised"] = None
                run.probes["aborted_by_user_exception"] += 1
            # the request persists: a second run on the same state, started while the stop is still
            # requested, must emit nothing and change nothing
            n_first = len(run.log.entries)
            reads_first = clock.reads
            if info["raised"] is None and info["flag_after"] and not info["crashed"]:
                before2 = state_digest(state)
                reads2 = clock.reads
                tc2 = dict(tc, starting_epoch=1, epochs=max(1, tc["epochs"]))
                info2 = run_fit(run, state, tc2, data_in, bases, n_wit=cfg["n_wit"], flavours=cfg.get("flavours"))
                ev2 = sum(1 for ent in run.log.entries[n_first:] if ent[0] == "ev")
                run.probes["second_fit_while_stopped"] += 1
                if info2["raised"] is not None:
                    run.lib_exception(info2["raised"], "second fit while a stop is requested")
                else:
                    run.require(ev2 == 0, "S5", f"second fit on a state whose stop request persists emitted {ev2} callback events", second=True)
                    run.require(state_digest(state) == before2, "S5", "second fit on a state whose stop request persists changed parameters", second=True)
                    run.require(clock.reads == reads2, "S5", "second fit on a state whose stop request persists started the timer", second=True)
                    run.require(info2["flag_after"], "P", "stop request was cleared by a second fit", second=True)
            # continuation: a second run on the same state picks up at a later starting epoch
            n_cont = None
            cont = cfg.get("continue") or ({"span": 1, "gap": 0, "replace": []} if aborted else None)
            if aborted:
                state.stop_training = False
            if info["raised"] is None and (aborted or not info["flag_after"]) and not info["crashed"] and cont:
                n_cont = len(run.log.entries)
                se2 = max(tc["epochs"], tc["starting_epoch"] - 1) + 1 + cont["gap"]
                tc2 = dict(tc, starting_epoch=se2, epochs=se2 - 1 + cont["span"])
                info2 = run_fit(run, state, tc2, data_in, bases, n_wit=cfg["n_wit"], flavours=cfg.get("flavours"), scheduler=sched, scheduler_args=sargs,
                                container=cfg.get("container", "list"), prior=info, replace=cont.get("replace", []), returns=cfg.get("returns"))
                run.probes["continued_fit"] += 1
                if info2["raised"] is not None:
                    run.lib_exception(info2["raised"], "continued fit")
                else:
                    items2, _ = protocol.extract(run, cfg["n_wit"], frm=n_cont)
                    protocol.judge(run, items2, tc2["starting_epoch"], tc2["epochs"], cfg["data"]["N"], tc2["pos_bs"], flag_after=info2["flag_after"], digest_before=info2["digest_before"], digest_after=info2["digest_after"])
                n_first = n_cont
        rng.check_global()
    if info["raised"] is not None:
        run.lib_exception(info["raised"], "fit", N=cfg["data"]["N"], type=cfg["state"]["type"])
    if any(ent[0] == "ev-retired" for ent in run.log.entries):
        run.violate("W-order", "a callback object that the caller had replaced in its list still received events of the later run")
    if aborted:
        # the first run ended by the user's exception in the middle of a dispatch: only the run after it is judged
        items = []
    else:
        items, _ = protocol.extract(run, cfg["n_wit"], upto=n_first)
    N = cfg["data"]["N"]
    if info["raised"] is None and not aborted:
        protocol.judge(
            run,
            items,
            tc["starting_epoch"],
            tc["epochs"],
            N,
            tc["pos_bs"],
            preset=info["preset"],
            flag_after=info["flag_after"],
            digest_before=info.get("digest_before"),
            digest_after=info.get("digest_after"),
        )
        if not any(it[0] == "ev" for it in items) and any(it[0] == "stop" for it in items):
            # a request that landed before fit's first check: same contract as a preset stop
            run.probes["async_before_first_check"] += 1
            run.require(state_digest(state) == before, "S5", "fit that emitted nothing changed parameters")
        if info["preset"]:
            run.require(state_digest(state) == before, "S5", "fit with stop already requested changed parameters")
            run.require(reads_first == 0, "S5", "fit with stop already requested started the timer")
            run.require(info["flag_after"], "P", "preset stop request did not persist")
        if tc.get("time") and any(it[0] == "ev" for it in items):
            # the timing callback is driven by the same protocol: one start, one end reading
            run.require(reads_first == 2, "W-timer", f"Timer read the clock {reads_first} times, expected 2")
    # abstract trace / coverage
    tr = []
    for it in items:
        if it[0] == "ev":
            tr.append(it[1])
        else:
            tr.append(("STOP",) + tuple(str(x) for x in it[1:]))
    run.trace = (cfg["n_wit"], tr)
    nstops = sum(1 for it in items if it[0] == "stop")
    ne = max(0, tc["epochs"] - tc["starting_epoch"] + 1)
    run.nontrivial = nstops > 0 or info["preset"] or ne >= 2
    run.sim["epochs"] += sum(1 for it in items if it[0] == "ev" and it[1] == "ES")
    run.sim["batches"] += sum(1 for it in items if it[0] == "ev" and it[1] == "BS")
    run.sim["clock_s"] += int(clock.elapsed())
    for it in items:
        if it[0] == "stop":
            prev = [x for x in items[: items.index(it)] if x[0] == "ev"]
            lk = prev[-1][1] if prev else "none"
            run.probes[f"stop_{it[1]}_after_{lk}"] += 1
    if info["preempt"].unfired():
        run.probes["async_unfired"] += len(info["preempt"].unfired())
    return run.result()


def shrink(plan):
    """Candidate simplifications, simplest first (used by the generic minimiser
    in addition to list ddmin over plan['faults'])."""
    out = []
    c = plan["config"]

    def variant(**kw):
        import copy

        q = copy.deepcopy(plan)
        for path, v in kw.items():
            d = q["config"]
            ks = path.split("__")
            for k in ks[:-1]:
                d = d[k]
            d[ks[-1]] = v
        return q

    if c["n_wit"] > 1:
        q = variant(n_wit=1)
        for f in q["faults"]:
            if f["kind"] == "stop_cb":
                f["cb"] = 0
        out.append(q)
    if c.get("scheduler"):
        out.append(variant(scheduler=False))
    if c["train"].get("time"):
        out.append(variant(train__time=False))
    if c.get("rng_mode") != "honest":
        out.append(variant(rng_mode="honest"))
    if c["state"]["type"] != "positive":
        q = variant(state__type="positive")
        q["config"]["state"].pop("na", None)
        q["config"]["state"].pop("custom_unitary", None)
        out.append(q)
    if c["train"]["k"] > 0:
        out.append(variant(train__k=0))
    if c["data"]["N"] > 1:
        out.append(variant(data__N=max(1, c["data"]["N"] // 2)))
        out.append(variant(data__N=c["data"]["N"] - 1))
    if c["state"]["nv"] > 1:
        out.append(variant(state__nv=1, data__nv=1))
    if c["state"]["nh"] > 1:
        out.append(variant(state__nh=1))
    if c["train"]["starting_epoch"] > 1:
        d = c["train"]["starting_epoch"] - 1
        out.append(variant(train__starting_epoch=1, train__epochs=c["train"]["epochs"] - d))
    if c["train"]["epochs"] > c["train"]["starting_epoch"]:
        out.append(variant(train__epochs=c["train"]["epochs"] - 1))
    return out
