"""Shared plan generator and executor for the training-history checks
(C06: contrastive-divergence update, C07: epoch data conservation).

One run = one fit() call under the RNG seam (shuffle, negative indices and
every Gibbs draw served by the simulator), with the public per-batch method,
the amplitude network's gibbs_steps, the optimizer and the scheduler recorded,
witness callbacks, and an optional stop request."""
import warnings
from math import ceil

from qsim import plan as P
from qsim.core import Run, close, state_digest, tdigest


def generate(seed, tier, prop):
    r = P.rng_for(seed)
    big = tier == "thorough"
    if prop == "C07":
        scfg = P.gen_state_cfg(r, max_nv=4, max_nh=3, max_na=2, scales=(0.1, 1.0))
        dcfg = P.gen_data_cfg(r, scfg, max_N=12 if not big else 16, forms=("tensor", "tensor", "tensor_f32", "ndarray", "list"))
        epochs = r.randint(1, 4)
        ks = [0, 1]
    else:
        scfg = P.gen_state_cfg(r, max_nv=3, max_nh=3, max_na=2, scales=(0.1, 1.0, 3.0))
        dcfg = P.gen_data_cfg(r, scfg, max_N=9 if not big else 12)
        epochs = r.randint(1, 3)
        ks = [0, 1, 1, 2, 3]
    if prop == "C06" and scfg["type"] != "positive" and r.random() < 0.03:
        # occasionally a wide system whose rows are rotated only on its last sites
        scfg["nv"] = dcfg["nv"] = r.choice([40, 66, 70])
        scfg["nh"] = 1
        scfg["scale"] = 0.1
        scfg.pop("custom_unitary", None)
        dcfg.pop("custom_unitary", None)
        dcfg["basis_mode"] = r.choice(["high_sites", "high_sites_shared"])
        dcfg["N"] = max(3, min(dcfg["N"], 6))
        if dcfg["basis_mode"] == "high_sites_shared":
            dcfg["rows_mode"] = "leading_columns"
            dcfg["dup"] = False
    elif prop == "C06" and scfg["type"] == "complex" and r.random() < 0.0008:
        # one big group of rows measured in the same fully rotated setting
        scfg.update({"nv": 5, "nh": 8, "scale": 0.1})
        scfg.pop("custom_unitary", None)
        dcfg.update({"nv": 5, "N": 3000, "basis_mode": "one_setting", "form": "tensor", "dup": False})
        dcfg.pop("custom_unitary", None)
        epochs = 1
    many_settings = False
    if prop == "C07" and r.random() < 0.0012:
        # a long randomised-measurement record: tens of thousands of rows, (almost) all with distinct settings;
        # only the batching is observed here (no gradient is computed for these runs)
        many_settings = True
        scfg = {"type": "complex", "nv": 17, "nh": 1, "scale": 0.1, "pseed": P.s64(r)}
        dcfg = {"N": 70000, "nv": 17, "dseed": P.s64(r), "form": "tensor", "dup": False, "basis_mode": "all_random"}
        epochs = 1
    N = dcfg["N"]
    pos, neg = P.gen_batching(r, N)
    if many_settings:
        pos, neg = 35000, r.choice([None, 3])
    if dcfg["N"] == 3000:
        pos, neg = 3000, 4
    if r.random() < 0.05 and scfg["nv"] <= 4:
        # occasionally a dataset and batch sizes of realistic magnitude
        N = dcfg["N"] = r.choice([33, 64, 65, 130, 257])
        pos = r.choice([32, 64, 100, N])
        neg = r.choice([None, None, 32, 50, pos])
        epochs = min(epochs, 2)
    se = r.choice([1, 1, 1, 2, 3, 5])
    tc = {
        "epochs": se - 1 + epochs,
        "starting_epoch": se,
        "arg_types": r.choice(["python", "python", "python", "numpy"]),
        "pos_bs": pos,
        "neg_bs": neg,
        "k": r.choice(ks),
        "lr": r.choice([1e-3, 0.1, 1.0]),
        "time": False,
        "call_form": r.choice(["keyword", "keyword", "positional"]),
    }
    nb = ceil(N / pos)
    total = 2 + epochs * (2 + 2 * nb)  # (epochs = number of epochs of the run, whatever the starting epoch)
    faults = []
    m = r.random()
    if m < 0.15:
        faults.append({"kind": "stop_cb", "event": r.randrange(0, total), "cb": 0})
    elif m < 0.25:
        faults.append({"kind": "stop_async", "addr": ["after", r.randrange(-1, total), r.randrange(0, 12)]})
    return {
        "property": prop,
        "run_seed": seed,
        "sub": P.s64(r),
        "config": {
            "state": scfg,
            "data": dcfg,
            "train": tc,
            # "default": optimizer= not passed at all; "sgd_plain": the genuine torch.optim.SGD class is passed
            # (both observed only through callbacks); the others are recording subclasses of real optimizers
            "optimizer": r.choice(["sgd", "sgd", "sgd_args", "sgd_momentum", "adam", "default", "default", "sgd_plain"]) if prop == "C06" else r.choice(["sgd", "default"]),
            "scheduler": r.choice([None, None, "step", "exp", "cyclic"]) if prop == "C06" else None,
            "gamma": r.choice([0.5, 0.9]),
            "rng_mode": r.choice(["honest", "honest", "rare"]),
            "perm_mode": r.choice(["honest", "honest", "honest", "identity", "reverse", "transpose"]),
            "randint_mode": r.choice(["honest", "honest", "honest", "allequal"]),
            # the reference-basis filter applied to a dataset of any size (the negative phase draws from its output)
            "refbasis_direct": ({"N": r.choice([1, 7, 50, 4097, 32769, 40000, 70001]), "dseed": P.s64(r), "nv": r.randint(1, 3)} if (prop == "C07" and r.random() < 0.04) else
                                # thorough tier only: a record longer than 2**24 rows (0.5 GB for a few seconds)
                                ({"N": 2 ** 24 + 401, "dseed": P.s64(r), "nv": 1} if (prop == "C07" and tier == "thorough" and r.random() < 0.0006) else None)),
            # a callback of this run trains ANOTHER model to completion in the middle of the run (two fits interleaved)
            "nested_fit": ({"at": r.randrange(1, max(2, total - 1)), "pseed": P.s64(r), "dseed": P.s64(r), "epochs": r.randint(1, 2)} if (r.random() < 0.08 and not many_settings and N <= 300 and scfg["nv"] <= 4) else None),
            "observe_batching_only": many_settings,
            "second_fit": (r.random() < 0.3) and not many_settings,
            # what the caller does between the two training runs
            "between": r.choice(["none", "none", "reinit", "randomise", "refill_data", "swap_unitaries"]),
            "between_seed": P.s64(r),
            "lr2": r.choice([1e-3, 0.05, 0.5]),  # the second training run uses another learning rate
        },
        "faults": faults,
    }


def execute(plan, prop):
    import numpy as np
    import torch

    from qsim.models import protocol
    from qsim.models.boltzmann import Formula, GibbsRefiner, raw_params
    from qsim.seams.public import BatchCapture, OptRecorder, recording_optimizer, recording_scheduler
    from qsim.seams.rng import RngSeam
    from qsim.train import run_fit
    from qsim.world import build_data, build_state, new_state, params_snapshot, randomise

    run = Run(plan)
    cfg = plan["config"]
    tc = cfg["train"]
    scfg = cfg["state"]
    judge06 = prop == "C06"
    judge07 = prop == "C07"
    rng = RngSeam(run)
    with rng:
        rng.stream(plan["sub"], mode=cfg.get("rng_mode", "honest"), rare=0.1, perm_mode=cfg.get("perm_mode", "honest"), randint_mode=cfg.get("randint_mode", "honest"))
        state = build_state(scfg)
        with_bases = scfg["type"] != "positive"
        data_in, data_np, bases = build_data(cfg["data"], with_bases=with_bases)
        bases_copy = None if bases is None else bases.copy()
        if isinstance(data_in, torch.Tensor):
            data_copy = data_in.clone()
        elif isinstance(data_in, np.ndarray):
            data_copy = data_in.copy()
        else:
            data_copy = [list(row) for row in data_in]
        rng.arm_global(plan["sub"])
        N, nv = data_np.shape
        initial = params_snapshot(state)

        def data_unchanged():
            if isinstance(data_in, torch.Tensor):
                ok = torch.equal(data_in, data_copy) and data_in.dtype == data_copy.dtype
            elif isinstance(data_in, np.ndarray):
                ok = np.array_equal(data_in, data_copy)
            else:
                ok = data_in == data_copy
            if bases is not None:
                ok = ok and np.array_equal(bases, bases_copy) and bases.dtype == bases_copy.dtype
            return ok

        def fresh_twin(st):
            tw = new_state(scfg["type"], st.num_visible, st.num_hidden, getattr(st, "num_aux", None) if scfg["type"] == "density" else None,
                           unitary_dict={k_: v_.clone() for k_, v_ in st.unitary_dict.items()})
            for net in st.networks:
                getattr(tw, net).load_state_dict({k_: v_.clone() for k_, v_ in getattr(st, net).state_dict().items()})
            return tw

        fits = []
        nfits = 2 if cfg.get("second_fit") else 1
        shared_opt_args = {"momentum": 0.0, "dampening": 0.0}  # the caller's dict, passed to every fit of the run
        shared_opt_args_copy = dict(shared_opt_args)
        for fi in range(nfits):
            log_start = len(run.log.entries)
            initial = params_snapshot(state)
            if fi > 0:
                # a second training run on the same state (new optimizer, history continues)
                state.stop_training = False
                btw = cfg.get("between", "none")
                if btw == "reinit":
                    rng.stream(cfg.get("between_seed", 1))
                    state.reinitialize_parameters()
                elif btw == "randomise":
                    randomise(state, cfg.get("between_seed", 1), scfg.get("scale", 1.0))
                elif btw == "swap_unitaries" and "unitary_dict" in state.__dict__:
                    # the user gives new matrices to existing basis names (still unitaries)
                    ud = state.unitary_dict
                    ud["X"], ud["Y"] = ud["Y"].clone(), ud["X"].clone()
                    run.fault("alias", "swap_unitaries")
                elif btw == "refill_data":
                    # the caller refills ITS OWN buffers in place (same objects) with the next block of measurements
                    g2 = np.random.Generator(np.random.PCG64(cfg.get("between_seed", 1)))
                    newd = g2.integers(0, 2, size=data_np.shape).astype(np.float64)
                    if isinstance(data_in, torch.Tensor):
                        data_in.copy_(torch.from_numpy(newd).to(data_in.dtype))
                        data_copy.copy_(data_in)
                    elif isinstance(data_in, np.ndarray):
                        data_in[...] = newd
                        data_copy[...] = newd
                    else:
                        for i_, row in enumerate(newd.tolist()):
                            data_in[i_][:] = row
                            data_copy[i_][:] = row
                    data_np[...] = newd
                    if bases is not None:
                        perm = g2.permutation(bases.shape[0])
                        bases[...] = bases[perm]
                        if not (bases == "Z").all(axis=1).any():
                            bases[0] = "Z"
                        bases_copy[...] = bases
                    run.fault("alias", "refill_data")
                initial = params_snapshot(state)
                rng.stream(plan["sub"] + 7919 * fi, mode=cfg.get("rng_mode", "honest"), rare=0.1, perm_mode=cfg.get("perm_mode", "honest"), randint_mode=cfg.get("randint_mode", "honest"))
            fit_faults = plan.get("faults", ()) if fi == 0 else ()
            mutated = {"at": None}
            bs_snap = {"v": None}
            cb_steps = []  # optimizer steps as seen through callbacks only (parameters at BS/BE, .grad at BE)
            epoch_of_record = []  # per captured batch: epoch index
            cur_epoch = {"e": None}

            ev_count = {"n": -1}

            def handler(kind, args, idx, nn_state, seq):
                ev_count["n"] += 1
                nf = cfg.get("nested_fit")
                if nf and fi == 0 and ev_count["n"] == nf["at"] and kind != "TE":
                    other = build_state(dict(scfg, pseed=nf["pseed"]))
                    odata, _, obases = build_data(dict(cfg["data"], dseed=nf["dseed"], form="tensor"), with_bases=with_bases)
                    kw = {} if obases is None else {"input_bases": obases}
                    other.fit(odata, epochs=nf["epochs"], pos_batch_size=tc["pos_bs"], neg_batch_size=tc.get("neg_bs"), k=tc["k"], lr=0.05, **kw)
                    run.fault("interleaved_fit", kind)
                if kind == "ES":
                    cur_epoch["e"] = args[0]
                if judge07 and mutated["at"] is None and not data_unchanged():
                    mutated["at"] = (kind, tuple(args))
                if kind == "TS":
                    rec.armed = True
                elif kind == "BS":
                    bs_snap["v"] = {(net, name): p.data.detach().numpy().copy() for net, name, p in rec.named()}
                elif kind == "BE" and bs_snap["v"] is not None:
                    cb_steps.append(
                        {
                            "lr": [None],
                            "before": bs_snap["v"],
                            "after": {(net, name): p.data.detach().numpy().copy() for net, name, p in rec.named()},
                            "grad": {(net, name): (None if p.grad is None else p.grad.detach().numpy().copy()) for net, name, p in rec.named()},
                            "n_opt_params": None,
                        }
                    )
                    bs_snap["v"] = None

            # ---- reference gradient, computed at the parameters the step will see ----
            refs = []  # parallel to cap.records
            chain = {"ref": None}

            def before_batch(record, samples_batch, neg_batch, bases_batch):
                epoch_of_record.append(cur_epoch["e"])
                if not judge06:
                    refs.append(None)
                    return
                ref = {"pos": None, "formula": None, "refiner": None, "err": None}
                try:
                    B = float(record["samples"].shape[0]) if record["samples_dim"] >= 2 else 1.0
                    if scfg["type"] == "positive":
                        f = Formula(raw_params(state.rbm_am))
                        ref["pos"] = [f.eff_energy_grad_sum(record["samples"].reshape(-1, nv)) / B]
                    else:
                        # a freshly built object with the same parameters and unitaries: whatever the long-lived
                        # object remembers from its history must not make its gradients differ from this one's
                        # ... evaluated ROW BY ROW, so that nothing depends on how a batch is grouped by basis
                        # The rotated gradient divides by a probability that is a sum of cancelling terms, so the
                        # row-by-row value and the library's grouped value legitimately differ by rounding that
                        # grows with 1/probability (seen: 1e-7 at |g|~14).  Hence two references: the same twin
                        # evaluated on the whole batch (same arithmetic: tight tolerance) and row by row (loose
                        # tolerance scaled by the largest single-row gradient entry).
                        tw = fresh_twin(state)
                        g = None
                        row_mag = 0.0
                        for ri_ in range(samples_batch.shape[0]):
                            gi = tw.gradient(samples_batch[ri_ : ri_ + 1], bases=bases_batch[ri_ : ri_ + 1])
                            gi = [x if isinstance(x, torch.Tensor) else torch.zeros(getattr(state, net).num_pars, dtype=torch.double) + float(x) for x, net in zip(gi, state.networks)]
                            for x_ in gi:
                                if x_.numel():
                                    m_ = float(x_.detach().abs().max())
                                    if m_ == m_ and m_ != float("inf"):
                                        row_mag = max(row_mag, m_)
                            g = gi if g is None else [a_ + b_ for a_, b_ in zip(g, gi)]
                        ref["row_mag"] = row_mag
                        gb = fresh_twin(state).gradient(samples_batch, bases=bases_batch)
                        ref["pos_batch"] = [
                            (x.detach().numpy().astype(np.float64) / B) if isinstance(x, torch.Tensor) else np.zeros(getattr(state, net).num_pars) + float(x)
                            for x, net in zip(gb, state.networks)
                        ]
                        ref["pos"] = [
                            (x.detach().numpy().astype(np.float64) / B) if isinstance(x, torch.Tensor) else np.zeros(getattr(state, net).num_pars) + float(x)
                            for x, net in zip(g, state.networks)
                        ]
                        f = Formula(raw_params(state.rbm_am))
                    ref["formula"] = f
                    gr = GibbsRefiner(f, use_table=False)
                    gr.reset(record["neg"].reshape(-1, nv), 10 ** 9)
                    ref["refiner"] = gr
                    ref["hist"] = [gr.v.copy()]
                    chain["ref"] = ref
                except Exception as exc:  # noqa: BLE001
                    ref["err"] = exc
                refs.append(ref)

            def after_batch(record):
                chain["ref"] = None

            def rng_listener(kindr, arrays):
                ref = chain["ref"]
                if ref is None or ref["refiner"] is None:
                    return
                gr = ref["refiner"]
                if kindr in ("bern", "other:Tensor.bernoulli", "other:Tensor.bernoulli_"):
                    before = gr.step
                    gr.feed(arrays[0], arrays[1])
                    if gr.step > before:
                        ref["hist"].append(gr.v.copy())
                else:
                    gr.status = "structure"

            rng.listeners.append(rng_listener)
            rec = OptRecorder(run, state)
            cap = BatchCapture(run, state, before_batch=before_batch, after_batch=after_batch, call_through=not cfg.get("observe_batching_only"))
            opt_name = cfg.get("optimizer", "sgd")
            base_opt = {"sgd": torch.optim.SGD, "sgd_args": torch.optim.SGD, "sgd_momentum": torch.optim.SGD, "adam": torch.optim.Adam}.get(opt_name)
            opt_args = {"momentum": 0.5} if opt_name == "sgd_momentum" else (shared_opt_args if opt_name == "sgd_args" else None)
            tc = dict(cfg["train"])
            if fi > 0:
                tc["lr"] = cfg.get("lr2", tc["lr"])
            if opt_name == "default":
                opt_cls = None
            elif opt_name == "sgd_plain":
                opt_cls = torch.optim.SGD
            else:
                opt_cls = recording_optimizer(base_opt, rec)
            sched = sargs = None
            if cfg.get("scheduler") == "step":
                sched, sargs = recording_scheduler(torch.optim.lr_scheduler.StepLR, rec), {"step_size": 1, "gamma": cfg["gamma"]}
            elif cfg.get("scheduler") == "exp":
                sched, sargs = recording_scheduler(torch.optim.lr_scheduler.ExponentialLR, rec), {"gamma": cfg["gamma"]}
            elif cfg.get("scheduler") == "cyclic":
                sched, sargs = recording_scheduler(torch.optim.lr_scheduler.CyclicLR, rec), {"base_lr": tc["lr"] * 0.1, "max_lr": tc["lr"], "step_size_up": 2, "cycle_momentum": False}
            base_sched = {"step": torch.optim.lr_scheduler.StepLR, "exp": torch.optim.lr_scheduler.ExponentialLR, "cyclic": torch.optim.lr_scheduler.CyclicLR}.get(cfg.get("scheduler"))
            lr_plan = None
            if base_sched is not None:
                # what the learning rate is in each epoch when the genuine scheduler is advanced once per epoch
                dummy = torch.optim.SGD([torch.zeros(1, requires_grad=True)], lr=tc["lr"])
                with warnings.catch_warnings():
                    warnings.simplefilter("ignore")
                    ref_sched = base_sched(dummy, **sargs)
                    lr_plan = []
                    for _ in range(max(0, tc["epochs"] - tc["starting_epoch"] + 1)):
                        lr_plan.append(float(dummy.param_groups[0]["lr"]))
                        dummy.step()
                        ref_sched.step()
            with cap:
                info = run_fit(
                    run,
                    state,
                    tc,
                    data_in,
                    bases,
                    n_wit=1,
                    faults=fit_faults,
                    handler=handler,
                    optimizer=opt_cls,
                    optimizer_args=opt_args,
                    scheduler=sched,
                    scheduler_args=sargs,
                )
            rng.listeners.remove(rng_listener)
            seamed = rng.check_global()
            fits.append(dict(lr_plan=lr_plan, tc=tc, unchanged_after=data_unchanged(), data_np=data_np.copy(), bases_copy=None if bases_copy is None else bases_copy.copy(), cb_steps=cb_steps, final=params_snapshot(state), info=info, cap=cap, rec=rec, refs=refs, epoch_of_record=epoch_of_record, initial=initial, mutated=mutated, seamed=seamed, sched=sched, opt_name=opt_name, log_start=log_start, log_end=len(run.log.entries)))

    if judge07 and cfg.get("refbasis_direct"):
        rd = cfg["refbasis_direct"]
        g3 = np.random.Generator(np.random.PCG64(rd["dseed"]))
        Nn, nvv = rd["N"], rd["nv"]
        smp = torch.tensor(g3.integers(0, 2, size=(Nn, nvv)).astype(np.float64), dtype=torch.double)
        # the row value encodes the row index so that provenance is visible
        smp[:, 0] = torch.arange(Nn, dtype=torch.double)
        bs_ = np.where(g3.random((Nn, nvv)) < 0.7, "Z", "X").astype("<U1")
        try:
            from qucumber.utils.data import extract_refbasis_samples

            got = extract_refbasis_samples(smp, bs_).numpy()
            want_rows = smp.numpy()[(bs_ == "Z").all(axis=1)]
            if got.shape != want_rows.shape or not np.array_equal(got, want_rows):
                run.violate("7-neg", f"reference-basis filter on {Nn} rows returned {got.shape[0]} rows, {want_rows.shape[0]} rows are measured entirely in the reference basis (or rows differ)", N=Nn)
            run.probes["refbasis_direct"] += 1
        except Exception as exc:  # noqa: BLE001
            run.lib_exception(exc, "extract_refbasis_samples", N=Nn)
    if judge06 and shared_opt_args != shared_opt_args_copy:
        run.violate("6-args", f"fit modified the caller's optimizer_args dict: {shared_opt_args}")
    trace_all = []
    nontrivial_any = False
    for fi, F in enumerate(fits):
        info, cap, rec, refs, epoch_of_record, initial, mutated, seamed, sched, opt_name = (F[k] for k in ("info", "cap", "rec", "refs", "epoch_of_record", "initial", "mutated", "seamed", "sched", "opt_name"))
        log_entries = run.log.entries[F["log_start"] : F["log_end"]]
        data_np, bases_snap = F["data_np"], F["bases_copy"]  # the caller's data as it was during this run
        tc = F["tc"]
        if info["raised"] is not None:
            run.lib_exception(info["raised"], "fit", N=N, type=scfg["type"], pos_bs=tc["pos_bs"], neg_bs=tc.get("neg_bs"))
        items, _ = protocol.extract(run, 1, upto=F["log_end"], frm=F["log_start"])
        stopped = any(it[0] == "stop" for it in items)
        evs = [it for it in items if it[0] == "ev"]
        nb = ceil(N / tc["pos_bs"])
        neg_bs = tc.get("neg_bs") or tc["pos_bs"]
        records = cap.records
        trace = [scfg["type"], N, tc["pos_bs"], neg_bs, tc["k"], cfg.get("perm_mode"), cfg.get("randint_mode"), cfg.get("optimizer"), cfg.get("scheduler")]
        trace.append([it[1] if it[0] == "ev" else "STOP" for it in items])

        n_bs = sum(1 for it in evs if it[1] == "BS")
        captured = len(records) == n_bs and info["raised"] is None
        if info["raised"] is None and len(records) != n_bs:
            run.inconclusive["batch_capture_bypassed"] += 1

        # =====================================================================
        # C07: conservation / exactly-once / pairing / immutability
        # =====================================================================
        if judge07 and info["raised"] is None:
            if mutated["at"] is not None:
                run.violate("7-immutable", f"caller's data or bases changed during training (first seen at {mutated['at']})", form=cfg["data"]["form"])
            elif not F["unchanged_after"]:
                run.violate("7-immutable", "caller's data or bases changed by fit", form=cfg["data"]["form"])
            if captured:
                def key(row, brow):
                    return tuple(float(x) for x in row) + (tuple(str(b) for b in brow) if brow is not None else ())

                want = sorted(key(data_np[i], None if bases is None else bases_snap[i]) for i in range(N))
                zrows = None
                if bases is not None:
                    zmask = (bases_snap == "Z").all(axis=1)
                    zrows = {tuple(float(x) for x in data_np[i]) for i in range(N) if zmask[i]}
                allrows = {tuple(float(x) for x in row) for row in data_np}
                # split records per epoch
                epochs_seen = []
                for e, recd in zip(epoch_of_record, records):
                    if not epochs_seen or epochs_seen[-1][0] != e:
                        epochs_seen.append((e, []))
                    epochs_seen[-1][1].append(recd)
                # which epochs completed before any stop request?
                first_stop = next((i for i, it in enumerate(items) if it[0] == "stop"), None)
                complete = set()
                for i, it in enumerate(items):
                    if it[0] == "ev" and it[1] == "EE" and (first_stop is None or i < first_stop):
                        complete.add(it[2][0])
                for e, recs in epochs_seen:
                    got = []
                    ok_shapes = True
                    for bi, rd in enumerate(recs):
                        s = rd["samples"]
                        if s.ndim != 2 or s.shape[1] != nv:
                            run.violate("7-shape", f"epoch {e} batch {bi}: positive batch has shape {s.shape}", N=N, pos_bs=tc["pos_bs"])
                            ok_shapes = False
                            continue
                        if bases is not None:
                            bb = rd["bases"]
                            if bb is None or bb.ndim != 2 or bb.shape != s.shape:
                                run.violate("7-pair", f"epoch {e} batch {bi}: bases batch shape {None if bb is None else bb.shape} does not match samples {s.shape}", N=N, pos_bs=tc["pos_bs"])
                                ok_shapes = False
                                continue
                        for ri in range(s.shape[0]):
                            got.append(key(s[ri], None if bases is None else rd["bases"][ri]))
                        last = bi == len(recs) - 1
                        full = s.shape[0] == tc["pos_bs"]
                        if not full and not last:
                            run.violate("7-size", f"epoch {e} batch {bi}: {s.shape[0]} rows, batch size {tc['pos_bs']} (not the last batch)", N=N, pos_bs=tc["pos_bs"])
                        if s.shape[0] > tc["pos_bs"]:
                            run.violate("7-size", f"epoch {e} batch {bi}: {s.shape[0]} rows exceed batch size {tc['pos_bs']}", N=N, pos_bs=tc["pos_bs"])
                        # negative batch provenance and size
                        ng = rd["neg"]
                        if ng.ndim != 2 or ng.shape[1] != nv or ng.shape[0] < 1:
                            run.violate("7-neg", f"epoch {e} batch {bi}: negative batch has shape {ng.shape}", N=N, neg_bs=neg_bs)
                        else:
                            pool = zrows if zrows is not None else allrows
                            badrow = next((tuple(float(x) for x in row) for row in ng if tuple(float(x) for x in row) not in pool), None)
                            if badrow is not None:
                                run.violate(
                                    "7-neg",
                                    f"epoch {e} batch {bi}: negative-phase start {badrow} is not a "
                                    + ("reference-basis (all-Z) row" if zrows is not None else "row")
                                    + " of the training data",
                                    N=N,
                                    neg_bs=neg_bs,
                                )
                            if ng.shape[0] > neg_bs or (ng.shape[0] < neg_bs and not last):
                                run.violate("7-neg", f"epoch {e} batch {bi}: negative batch has {ng.shape[0]} rows, neg_batch_size={neg_bs}", N=N, neg_bs=neg_bs)
                            if ng.shape[0] < neg_bs and last:
                                run.probes["short_tail_neg_batch"] += 1
                    if not ok_shapes:
                        continue
                    if e in complete:
                        if len(recs) != nb:
                            run.violate("7-count", f"epoch {e}: {len(recs)} batches, expected ceil({N}/{tc['pos_bs']})={nb}", N=N, pos_bs=tc["pos_bs"])
                        if sorted(got) != want:
                            missing = len(want) - len(got)
                            run.violate(
                                "7-conserve",
                                f"epoch {e}: multiset of (row, basis-row) pairs over the positive batches differs from the caller's data"
                                f" ({len(got)} pairs seen, {len(want)} expected)",
                                N=N,
                                pos_bs=tc["pos_bs"],
                                with_bases=bases is not None,
                                missing=missing,
                            )
                    else:
                        # epoch cut short: sub-multiset
                        from collections import Counter as _Counter

                        pool = _Counter(want)
                        for kx in got:
                            if pool[kx] > 0:
                                pool[kx] -= 1
                            else:
                                run.violate("7-conserve", f"epoch {e} (cut short): pair {kx} used more often than it occurs in the data", N=N, pos_bs=tc["pos_bs"], with_bases=bases is not None)
                                break
                    if len(recs) and recs[-1]["samples"].shape[0] < tc["pos_bs"]:
                        run.probes["tail_batch"] += 1
                if N < tc["pos_bs"]:
                    run.probes["N_lt_batch"] += 1

        # =====================================================================
        # C06: every step applies exactly the contrastive-divergence update
        # =====================================================================
        if judge06 and info["raised"] is None:
            recording = opt_name not in ("default", "sgd_plain")
            steps = rec.steps if recording else F["cb_steps"]
            plain_sgd = opt_name in ("sgd", "sgd_args", "default", "sgd_plain")
            names = [(net, name) for net, name, _ in rec.named()]
            # --- call schedule: exactly one optimizer.step between BS and its BE; one scheduler.step per epoch
            seqk = []
            for ent in log_entries:
                if ent[0] == "ev":
                    seqk.append(ent[1])
                elif ent[0] == "opt":
                    seqk.append("OPT")
                elif ent[0] == "sched":
                    seqk.append("SCH")
            state_m = "out"
            opt_in_batch = 0
            sch_in_epoch = 0
            last_batch_done = False
            for kx in (seqk if recording else [q for q in seqk if q == "__none__"]):
                if kx == "BS":
                    state_m = "batch"
                    opt_in_batch = 0
                    if sch_in_epoch:
                        run.violate("6-sched", "scheduler stepped before the epoch's last batch")
                        break
                elif kx == "BE":
                    if opt_in_batch != 1:
                        run.violate("6-steps", f"{opt_in_batch} optimizer steps between a batch start and its batch end (expected exactly 1)")
                        break
                    state_m = "epoch"
                elif kx == "OPT":
                    if state_m != "batch":
                        run.violate("6-steps", "optimizer.step() called outside a batch-start/batch-end window")
                        break
                    opt_in_batch += 1
                elif kx == "ES":
                    state_m = "epoch"
                    sch_in_epoch = 0
                elif kx == "SCH":
                    sch_in_epoch += 1
                elif kx == "EE":
                    if sched is not None and sch_in_epoch != 1:
                        run.violate("6-sched", f"scheduler advanced {sch_in_epoch} times in an epoch (expected exactly once)", scheduler=cfg.get("scheduler"))
                        break
                    state_m = "out"
            if captured and len(steps) == len(records):
                prev_after = initial_flat = {k2: initial[k2[0]][k2[1]] for k2 in names}
                lr0 = tc["lr"]
                gamma = cfg["gamma"]
                for t, (st_, rd, ref, ep) in enumerate(zip(steps, records, refs, epoch_of_record)):
                    # continuity: nothing but the optimizer moves parameters
                    for k2 in names:
                        if not np.array_equal(st_["before"][k2], prev_after[k2]):
                            run.violate("6-continuity", f"step {t}: parameter {k2} changed outside optimizer.step()", t=t)
                            break
                    prev_after = st_["after"]
                    if st_["n_opt_params"] is not None and st_["n_opt_params"] != len(names):
                        run.violate("6-params", f"optimizer was given {st_['n_opt_params']} parameters, the state has {len(names)}")
                    # learning rate schedule
                    if sched is not None and ep is not None and F["lr_plan"] and 0 <= ep - tc["starting_epoch"] < len(F["lr_plan"]):
                        want_lr = F["lr_plan"][ep - tc["starting_epoch"]]
                    else:
                        want_lr = lr0
                    if st_["lr"][0] is None:
                        st_["lr"][0] = want_lr  # not observable without a recording optimizer: the SGD rule below uses the scheduled rate
                    elif not close(st_["lr"][0], want_lr, 1e-12):
                        run.violate("6-sched", f"step {t} (epoch {ep}): learning rate {st_['lr'][0]!r}, expected {want_lr!r}", scheduler=cfg.get("scheduler"))
                    if ref is None or ref["err"] is not None or ref["pos"] is None:
                        run.inconclusive["reference_gradient"] += 1
                        continue
                    gr = ref["refiner"]
                    f = ref["formula"]
                    # --- the negative-phase chain: k steps from the negative batch
                    k = tc["k"]
                    vk = rd["vk"]
                    if gr.status == "mismatch" and seamed:
                        run.violate("6-chain", f"step {t}: negative-phase chain: {gr.msg}", t=t, k=k)
                        continue
                    chain_known = gr.status == "ok" and seamed and gr.pending is None
                    if chain_known:
                        if len(ref["hist"]) - 1 != k:
                            run.violate("6-chain", f"step {t}: negative-phase chain ran {len(ref['hist']) - 1} Gibbs steps from the negative batch, k={k}", t=t, k=k)
                            continue
                        v_end = ref["hist"][k]
                        if vk is not None and not np.array_equal(vk.reshape(v_end.shape), v_end):
                            run.violate("6-chain", f"step {t}: state used for the negative phase is not the end of the k-step chain from the negative batch", t=t, k=k)
                            continue
                    elif vk is not None:
                        v_end = vk.reshape(-1, nv)
                        run.inconclusive["chain_structure"] += 1
                    else:
                        run.inconclusive["chain_structure"] += 1
                        continue
                    nneg = float(rd["neg"].shape[0])
                    exp_am = ref["pos"][0] - f.eff_energy_grad_sum(v_end) / nneg
                    expected = {"rbm_am": exp_am}
                    if len(state.networks) > 1:
                        expected["rbm_ph"] = ref["pos"][1]
                    expected_b = None
                    if ref.get("pos_batch") is not None:
                        expected_b = {"rbm_am": ref["pos_batch"][0] - f.eff_energy_grad_sum(v_end) / nneg}
                        if len(state.networks) > 1:
                            expected_b["rbm_ph"] = ref["pos_batch"][1]
                    loose = 1e-5 * float(ref.get("row_mag") or 0.0)
                    ok_step = True
                    for net in state.networks:
                        ptr = 0
                        vec = expected[net]
                        for (n2, name, p) in rec.named():
                            if n2 != net:
                                continue
                            num = int(np.prod(p.shape)) if p.dim() else 1
                            want = vec[ptr : ptr + num].reshape(tuple(p.shape))
                            ptr += num
                            got = st_["grad"][(net, name)]
                            if got is None:
                                run.violate("6-grad", f"step {t}: parameter {net}.{name} has no gradient at optimizer.step()", t=t, net=net, name=name)
                                ok_step = False
                                continue
                            tol = 1e-9 * max(1.0, float(np.max(np.abs(want))) if want.size else 1.0)
                            bad = got.shape != want.shape or not np.allclose(got, want, rtol=0, atol=max(tol, loose), equal_nan=True)
                            if not bad and expected_b is not None:
                                # same arithmetic as the library (whole batch, fresh object): tight
                                want_b = expected_b[net][ptr - num : ptr].reshape(tuple(p.shape))
                                tol_b = 1e-9 * max(1.0, float(np.max(np.abs(want_b))) if want_b.size else 1.0)
                                if not np.allclose(got, want_b, rtol=0, atol=tol_b, equal_nan=True) and not np.allclose(got, want, rtol=0, atol=tol, equal_nan=True):
                                    bad = True
                                    want = want_b
                            if bad:
                                dev = float(np.nanmax(np.abs(got - want))) if got.shape == want.shape else float("inf")
                                run.violate(
                                    "6-grad",
                                    f"step {t}: gradient handed to the optimizer for {net}.{name} deviates from "
                                    f"positive phase - mean effective-energy gradient of the chain end states by {dev:.3e}",
                                    t=t,
                                    net=net,
                                    name=name,
                                    type=scfg["type"],
                                )
                                ok_step = False
                            # plain SGD arithmetic
                            if plain_sgd and got.shape == st_["before"][(net, name)].shape:
                                want_after = st_["before"][(net, name)] - st_["lr"][0] * got
                                a = st_["after"][(net, name)]
                                tol2 = 1e-12 * max(1.0, float(np.nanmax(np.abs(want_after))) if want_after.size else 1.0)
                                if not np.allclose(a, want_after, rtol=0, atol=tol2, equal_nan=True):
                                    run.violate("6-sgd", f"step {t}: {net}.{name} did not move by -lr*grad", t=t, net=net, name=name)
                                    ok_step = False
                        if ptr != len(vec):
                            run.violate("6-grad", f"network {net}: {ptr} parameter entries but gradient vector of length {len(vec)}", net=net)
                    if ok_step:
                        run.probes["steps_refined"] += 1
                # parameters at the end are the last step's result
                if steps:
                    final = F["final"]
                    for k2 in names:
                        if not np.array_equal(final[k2[0]][k2[1]], steps[-1]["after"][k2]):
                            run.violate("6-continuity", f"parameter {k2} changed after the last optimizer step")
                            break
            elif info["raised"] is None and len(steps) != len(records):
                run.violate("6-steps", f"{len(steps)} optimizer steps for {len(records)} batches")

        if info["raised"] is None:
            protocol.judge(run, items, tc["starting_epoch"], tc["epochs"], N, tc["pos_bs"], flag_after=info["flag_after"], digest_before=info.get("digest_before"), digest_after=info.get("digest_after"))
        trace_all.append(trace)
        run.sim["epochs"] += sum(1 for it in evs if it[1] == "ES")
        run.sim["batches"] += n_bs
        run.sim["gibbs_steps"] += tc["k"] * len(records)
        nontrivial_any = nontrivial_any or len(records) >= 2 or stopped
    run.trace = trace_all
    run.nontrivial = nontrivial_any
    return run.result()


def shrink(plan):
    import copy

    out = []
    c = plan["config"]

    def variant(**kw):
        q = copy.deepcopy(plan)
        for path, v in kw.items():
            d = q["config"]
            ks = path.split("__")
            for k in ks[:-1]:
                d = d[k]
            d[ks[-1]] = v
        return q

    for key, val in (("second_fit", False), ("rng_mode", "honest"), ("perm_mode", "honest"), ("randint_mode", "honest"), ("scheduler", None), ("optimizer", "sgd")):
        if c.get(key) != val:
            out.append(variant(**{key: val}))
    if c["state"]["type"] != "positive":
        q = variant(state__type="positive")
        q["config"]["state"].pop("na", None)
        q["config"]["state"].pop("custom_unitary", None)
        q["config"]["data"].pop("custom_unitary", None)
        out.append(q)
    if c["state"].get("custom_unitary"):
        q = variant()
        q["config"]["state"].pop("custom_unitary", None)
        q["config"]["data"].pop("custom_unitary", None)
        out.append(q)
    if c["data"]["form"] != "tensor":
        out.append(variant(data__form="tensor"))
    if c["data"].get("dup"):
        out.append(variant(data__dup=False))
    if c["train"]["epochs"] > 1:
        out.append(variant(train__epochs=1))
        out.append(variant(train__epochs=c["train"]["epochs"] - 1))
    if c["train"]["k"] > 0:
        out.append(variant(train__k=c["train"]["k"] - 1))
    if c["data"]["N"] > 1:
        out.append(variant(data__N=max(1, c["data"]["N"] // 2)))
        out.append(variant(data__N=c["data"]["N"] - 1))
    if c["train"]["pos_bs"] > 1:
        out.append(variant(train__pos_bs=c["train"]["pos_bs"] - 1))
    if c["train"].get("neg_bs") is not None:
        out.append(variant(train__neg_bs=None))
    if c["state"]["nv"] > 1:
        out.append(variant(state__nv=c["state"]["nv"] - 1, data__nv=c["state"]["nv"] - 1))
    if c["state"]["nh"] > 1:
        out.append(variant(state__nh=c["state"]["nh"] - 1))
    if c["state"].get("na", 1) > 1:
        out.append(variant(state__na=1))
    if c["train"]["lr"] != 0.1:
        out.append(variant(train__lr=0.1))
    return out
