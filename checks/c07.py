"""C07 - every epoch uses every training sample once, paired with its own
basis.  Simulated: the permutation and negative-index streams of every epoch
(honest, identity, reversal, transposition, all-equal), multi-epoch histories,
stop requests."""
from checks import _train_common as T

PROP = "C07"
QUICK_RUNS = 4800
RULE = (
    "one case = one seeded fit() history (state type, N in 1..12(16), batch sizes with N<bs, N=m*bs, N=m*bs+r, "
    "neg_batch_size given or defaulted, with/without bases, duplicate rows, data as tensor/float32 tensor/ndarray/list, "
    "1-4 epochs, honest or degenerate permutation / index streams, optional stop request); conservation and "
    "pairing judged per epoch over the captured batch history; non-trivial = at least 2 batches or a stop fired; "
    "distinct = distinct abstract trace"
)
COMPONENTS = {
    "real": ["qucumber (all; fit, _shuffle_data, extract_refbasis_samples)", "torch.optim.SGD (recording subclass)"],
    "stub": ["torch.randperm/randint/bernoulli/randn served from the plan's PCG64 stream (incl. forced identity/reverse/transposition/all-equal outcomes)"],
}
ASSUMPTIONS = [
    "batches are observed at the public per-batch method compute_batch_gradients wrapped on the instance; if a tree bypasses it the run is counted inconclusive",
    "the last negative batch of an epoch may be shorter than neg_batch_size (with equal batch sizes and no bases the positive permutation is reused)",
]


def generate(seed, tier):
    return T.generate(seed, tier, PROP)


def execute(plan):
    return T.execute(plan, PROP)


shrink = T.shrink
