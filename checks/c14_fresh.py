"""Fresh-interpreter twin for C14: reads a plan (JSON) on stdin, executes the
perturbed history under whatever PYTHONHASHSEED this interpreter was started
with, prints the per-operation digests as one JSON line."""
import json
import os
import sys

HERE = os.path.dirname(os.path.dirname(os.path.abspath(__file__)))
sys.path.insert(0, HERE)


def main():
    plan = json.load(sys.stdin)
    from qsim import runner

    runner.worker_init(os.environ.get("QSIM_REPO", "/repo"))
    from checks import c14

    res = c14.run_history(plan, True, plan["config"]["lib_seed"])
    print(json.dumps({"digests": c14._norm(res["digests"]), "hashseed": os.environ.get("PYTHONHASHSEED")}))


if __name__ == "__main__":
    main()
