"""C20 - model construction and reset honour their documented contracts.
Simulated: histories of construct (from sizes / from a user RBM) -> train ->
reinitialise -> train ..., with the caller continuing to use the RBM it handed
in (aliasing), under several optimizers; invariant monitor at every event."""
import copy

from qsim import plan as P
from qsim.core import Run, teq

PROP = "C20"
QUICK_RUNS = 4800
RULE = (
    "one case = one state constructed from sizes (hidden/auxiliary sizes explicit or defaulted) or from a user-supplied RBM, "
    "followed by a history of 2-7 operations out of {contract check incl. two-way aliasing perturbation, train with "
    "SGD / momentum / weight decay / Adam / Adadelta, reinitialise, caller writes into the RBM it handed in, fit without bases}; "
    "the phase network's auxiliary bias is monitored at every protocol event; non-trivial = the history contains a training "
    "run or a reinitialisation; distinct = distinct abstract trace (type, construction route, sizes, op sequence, optimizers)"
)
COMPONENTS = {
    "real": ["state constructors, reinitialize_parameters, fit guards", "BinaryRBM / PurificationRBM initialisation", "torch.optim SGD/Adam/Adadelta (real)", "gradients of all three state types"],
    "stub": ["torch.randn/bernoulli/randperm/randint served from the plan's PCG64 stream"],
}
ASSUMPTIONS = [
    "aliasing is judged by perturbing every parameter of one network in place and comparing every parameter of the other bitwise, both directions",
    "'random weights' is judged as: not all zero, and different between amplitude and phase network (the seam serves distinct normal draws)",
]

OPTS = ["sgd", "sgd_momentum", "sgd_wd", "adam", "adadelta"]


def generate(seed, tier):
    r = P.rng_for(seed)
    typ = r.choice(["positive", "complex", "complex", "density", "density"])
    nv = r.randint(1, 3)
    route = r.choice(["sizes", "module"])
    cfg = {"type": typ, "nv": nv, "route": route, "pseed": P.s64(r)}
    # hidden / auxiliary sizes explicit or defaulted, independently of each other
    cfg["nh"] = r.randint(1, 4) if (route == "module" or r.random() < 0.6) else None
    if typ == "density":
        cfg["na"] = r.randint(1, 3) if (route == "module" or r.random() < 0.5) else None
    cfg["module_randomised"] = r.random() < 0.7
    cfg["gpu_flag"] = r.random() < 0.2  # gpu=True on a CPU-only machine: warning + CPU model
    if typ == "density" and route == "sizes" and r.random() < 0.12:
        # a purification without auxiliary (or hidden) units is a legal, if degenerate, architecture
        cfg[r.choice(["na", "nh"])] = 0
    cfg["explicit_sizes_with_module"] = route == "module" and r.random() < 0.3
    cfg["module_zero_weights"] = route == "module" and r.random() < 0.25
    # a single-precision user RBM (the positive wavefunction evaluates, samples and trains it as it is)
    cfg["module_float32"] = route == "module" and typ == "positive" and r.random() < 0.3
    nops = r.randint(2, 7)
    # the first thing that happens after construction is not always an inspection
    ops = [{"op": "contract"}] if r.random() < 0.6 else []
    for _ in range(nops):
        m = r.random()
        if m < 0.35:
            ops.append({"op": "train", "opt": r.choice(OPTS), "sub": P.s64(r), "dseed": P.s64(r), "epochs": r.randint(1, 2), "N": r.randint(2, 5), "bs": r.choice([1, 2, 3])})
        elif m < 0.55:
            ops.append({"op": "reinit", "sub": P.s64(r)})
        elif m < 0.8:
            ops.append({"op": "contract"})
        elif m < 0.87:
            ops.append({"op": "caller_writes_module", "seed": P.s64(r)})
        elif m < 0.93:
            # another state of the same class comes to life (other sizes): the first must not notice
            ops.append({"op": "construct_other", "nv": r.randint(1, 3), "nh": r.randint(1, 4), "route": r.choice(["sizes", "module", "same_module", "same_module"]), "sub": P.s64(r)})
        else:
            ops.append({"op": "fit_without_bases", "sub": P.s64(r), "stop_pending": r.random() < 0.4})
    ops.append({"op": "contract"})
    return {"property": PROP, "run_seed": seed, "sub": P.s64(r), "config": cfg, "ops": ops}


def execute(plan):
    import numpy as np
    import torch

    from qsim.models import protocol
    from qsim.seams.rng import RngSeam
    from qsim.train import run_fit
    from qsim.world import build_data, new_state, params_snapshot, randomise, snapshots_equal

    run = Run(plan)
    c = plan["config"]
    rng = RngSeam(run)
    trace = [c["type"], c["route"], c["nv"], c.get("nh"), c.get("na")]
    did_history = False

    def named(rbm):
        return list(rbm.named_parameters())

    def finite(st):
        return all(bool(torch.isfinite(p.data).all()) for net in st.networks for p in getattr(st, net).parameters())

    def net_snapshot(rbm):
        return {n: p.data.detach().clone() for n, p in named(rbm)}

    def net_equal(rbm, snap):
        cur = net_snapshot(rbm)
        return cur.keys() == snap.keys() and all(teq(cur[k], snap[k]) for k in snap)

    with rng:
        rng.stream(plan["sub"])
        from qucumber.rbm import BinaryRBM, PurificationRBM

        module = None
        state = None
        try:
            if c["route"] == "module":
                zw = bool(c.get("module_zero_weights"))
                if c["type"] == "density":
                    module = PurificationRBM(c["nv"], c["nh"], c["na"], zero_weights=zw, gpu=False)
                else:
                    module = BinaryRBM(c["nv"], c["nh"], zero_weights=zw, gpu=False)
                if c.get("module_randomised"):
                    g = np.random.Generator(np.random.PCG64(c["pseed"]))
                    for n, p in module.named_parameters():
                        p.data.copy_(torch.from_numpy(g.standard_normal(tuple(p.shape))).to(p.data))
                if c.get("module_float32") and c["type"] == "positive":
                    module = module.float()
                module_before = net_snapshot(module)
                # sizes must come from the module, whatever size arguments accompany it
                wrong_nh = (c["nh"] + 2) if c.get("explicit_sizes_with_module") else None
                wrong_na = ((c.get("na") or 0) + 1) if (c.get("explicit_sizes_with_module") and c["type"] == "density") else None
                state = new_state(c["type"], c["nv"] + 5, wrong_nh, wrong_na, module=module, gpu=bool(c.get("gpu_flag")))
            else:
                state = new_state(c["type"], c["nv"], c.get("nh"), c.get("na"), gpu=bool(c.get("gpu_flag")))
        except Exception as exc:  # noqa: BLE001
            run.lib_exception(exc, f"constructing {c['type']} state from {c['route']}", type=c["type"], route=c["route"])
            run.trace = trace + ["ctor-raised"]
            return run.result()
        rng.arm_global(plan["sub"])
        two = len(state.networks) == 2
        if c["type"] == "density":  # PurificationRBM: only None means "default"; an explicit 0 is a size
            want_nh = c["nv"] if c.get("nh") is None else c["nh"]
            want_na = c["nv"] if c.get("na") is None else c["na"]
        else:
            want_nh = c.get("nh") or c["nv"]
            want_na = None
        # the phase network's auxiliary bias: exactly zero for states built from sizes, from a user RBM
        # whose auxiliary bias is zero, and after reinitialisation
        aux_expect = {"v": None}
        if c["type"] == "density":
            aux_expect["v"] = torch.zeros(want_na, dtype=torch.double)
            if c["route"] == "module" and bool((module_before["aux_bias"] != 0).any()):
                # the user's RBM has a non-zero auxiliary bias and the phase network is a copy of it:
                # "stays zero" has no meaning until the next reinitialisation
                aux_expect["v"] = None
                run.probes["auxbias_invariant_not_applicable"] += 1

        def shapes_ok(rbm, what, **detail):
            ok = True
            want = {"weights": (want_nh, c["nv"]), "weights_W": (want_nh, c["nv"]), "weights_U": (want_na, c["nv"]), "visible_bias": (c["nv"],), "hidden_bias": (want_nh,), "aux_bias": (want_na,)}
            for n, p in named(rbm):
                if tuple(p.shape) != want[n]:
                    run.violate("20-shape", f"{what}: parameter {n} has shape {tuple(p.shape)}, expected {want[n]}", **detail)
                    ok = False
            if rbm.num_visible != c["nv"] or rbm.num_hidden != want_nh or (want_na is not None and rbm.num_aux != want_na):
                run.violate("20-shape", f"{what}: sizes ({rbm.num_visible},{rbm.num_hidden},{getattr(rbm, 'num_aux', None)}) expected ({c['nv']},{want_nh},{want_na})", **detail)
                ok = False
            return ok

        def contract(tag):
            detail = dict(type=c["type"], route=c["route"], after=tag)
            am = state.rbm_am
            if c["route"] == "module":
                if am is not module:
                    run.violate("20-module", "state built from a user RBM does not use that RBM as its amplitude network", **detail)
                if state.num_visible != module.num_visible or state.num_hidden != module.num_hidden or (want_na is not None and state.num_aux != module.num_aux):
                    run.violate("20-module", "state sizes are not taken from the user RBM", **detail)
            shapes_ok(am, "amplitude network", **detail)
            if two:
                ph = state.rbm_ph
                shapes_ok(ph, "phase network", **detail)
                if ph is am:
                    run.violate("20-alias", "amplitude and phase network are the same object", **detail)
                # two-way perturbation: writing into one network must not change the other
                for src, dst, sname in ((am, ph, "amplitude"), (ph, am, "phase")):
                    for n, p in named(src):
                        dst_before = net_snapshot(dst)
                        saved = p.data.detach().clone()
                        p.data.add_(1.0)
                        changed = not net_equal(dst, dst_before)
                        p.data.copy_(saved)
                        if changed:
                            run.violate("20-alias", f"writing {sname} network parameter {n} changed the other network ({tag})", param=n, src=sname, **detail)
                            break
            if tag == "construct" and c["route"] == "module":
                if not net_equal(module, module_before):
                    run.violate("20-module", "constructing a state changed the user's RBM parameters", **detail)
            if two and c["route"] == "module" and phase_is_copy["v"]:
                # until the phase network is trained or reinitialised it must hold the values the user's RBM
                # had when the state was constructed - whatever happened to the amplitude network since
                if not net_equal(state.rbm_ph, module_before):
                    run.violate("20-module", f"phase network is not a copy of the RBM given at construction ({tag})", **detail)
            if tag in ("construct", "reinit") and (c["route"] == "sizes" or tag == "reinit"):
                for net in state.networks:
                    rbm = getattr(state, net)
                    for n, p in named(rbm):
                        if n.startswith("weights"):
                            if p.numel() and not bool((p.data != 0).any()):
                                run.violate("20-init", f"{net}.{n} is all zero after {tag}", **detail)
                        elif bool((p.data != 0).any()):
                            run.violate("20-init", f"{net}.{n} is not exactly zero after {tag}", name=n, **detail)
                if two:
                    for (n, pa), (_, pp) in zip(named(state.rbm_am), named(state.rbm_ph)):
                        if n.startswith("weights") and pa.numel() and pa.shape == pp.shape and torch.equal(pa.data, pp.data):
                            run.violate("20-init", f"amplitude and phase {n} are identical after {tag}", **detail)
            if c["type"] == "density":
                if not finite(state):
                    run.inconclusive["diverged_nonfinite_parameters"] += 1
                elif aux_expect["v"] is not None and not torch.equal(state.rbm_ph.aux_bias.data, aux_expect["v"]):
                    run.violate("20-auxbias", f"phase network's auxiliary bias is not zero ({tag})", **detail)

        others = []
        contract_tag = "construct"
        phase_is_copy = {"v": c["route"] == "module"}
        for j, op in enumerate(plan["ops"]):
            kind = op["op"]
            run.log.add("op", kind, j)
            if kind == "contract":
                contract(contract_tag)
                trace.append("C")
                if contract_tag in ("construct", "reinit"):
                    contract_tag = "later"
            elif kind == "reinit":
                did_history = True
                phase_is_copy["v"] = False
                before = params_snapshot(state)
                rng.stream(op["sub"])
                try:
                    state.reinitialize_parameters()
                except Exception as exc:  # noqa: BLE001
                    run.lib_exception(exc, "reinitialize_parameters")
                    continue
                after = params_snapshot(state)
                for net in state.networks:
                    for n in before[net]:
                        if before[net][n].shape != after[net][n].shape:
                            run.violate("20-reinit", f"reinitialise changed the shape of {net}.{n}", net=net, name=n, type=c["type"])
                        elif n.startswith("weights") and before[net][n].size and np.array_equal(before[net][n], after[net][n]):
                            run.violate("20-reinit", f"reinitialise did not redraw {net}.{n}", net=net, name=n, type=c["type"])
                if c["type"] == "density":
                    aux_expect["v"] = torch.zeros(want_na, dtype=torch.double)
                contract_tag = "reinit"
                contract("reinit")
                contract_tag = "later"
                trace.append("R")
            elif kind == "caller_writes_module":
                if module is None or state.rbm_am is not module:
                    continue
                g = np.random.Generator(np.random.PCG64(op["seed"]))
                # (the phase network is deliberately not read before the write: a copy made lazily would be exposed)
                ph_before = module_before if phase_is_copy["v"] else (net_snapshot(state.rbm_ph) if two else None)
                for n, p in module.named_parameters():
                    p.data.add_(torch.from_numpy(g.standard_normal(tuple(p.shape)) * 0.1).to(p.data))
                if two and not net_equal(state.rbm_ph, ph_before):
                    run.violate("20-alias", "the caller writing into the RBM it handed in changed the phase network", type=c["type"], route=c["route"])
                run.fault("alias", "module")
                contract_tag = "later"
                trace.append("W")
            elif kind == "construct_other":
                before = params_snapshot(state)
                rng.stream(op["sub"])
                try:
                    if op["route"] == "same_module" and module is not None and c["type"] != "positive" and state.rbm_am is module:
                        # the caller builds a second state from the very same RBM object
                        st2 = new_state(c["type"], c["nv"], None, None, module=module)
                        others.append(st2)
                        cur_mod = net_snapshot(module)
                        if st2.rbm_am is not module:
                            run.violate("20-module", "a second state built from the same RBM does not use it as its amplitude network", type=c["type"])
                        if st2.rbm_ph is state.rbm_ph:
                            run.violate("20-alias", "two states built from the same RBM share one phase network object", type=c["type"])
                        elif not net_equal(st2.rbm_ph, cur_mod):
                            run.violate("20-module", "the phase network of a second state built from the same RBM is not a copy of the RBM's current parameters", type=c["type"])
                        else:
                            ph1 = net_snapshot(state.rbm_ph)
                            for n_, p_ in named(st2.rbm_ph):
                                p_.data.add_(1.0)
                            if not net_equal(state.rbm_ph, ph1):
                                run.violate("20-alias", "changing the phase network of one state changed the phase network of another state built from the same RBM", type=c["type"])
                    elif op["route"] == "module":
                        mod2 = PurificationRBM(op["nv"], op["nh"], 1, gpu=False) if c["type"] == "density" else BinaryRBM(op["nv"], op["nh"], gpu=False)
                        others.append(new_state(c["type"], op["nv"], None, None, module=mod2))
                    else:
                        others.append(new_state(c["type"], op["nv"], op["nh"], 1 if c["type"] == "density" else None))
                except Exception as exc:  # noqa: BLE001
                    run.lib_exception(exc, "constructing a second state", type=c["type"])
                    continue
                if not snapshots_equal(before, params_snapshot(state)):
                    run.violate("20-bystander", "constructing another state changed this state's parameters", type=c["type"])
                if c["route"] == "module" and state.rbm_am is not module:
                    run.violate("20-bystander", "constructing another state replaced this state's amplitude network", type=c["type"])
                contract("later" if contract_tag == "later" else contract_tag)
                trace.append("O")
            elif kind == "fit_without_bases":
                if c["type"] == "positive":
                    continue
                before = params_snapshot(state)
                rng.stream(op["sub"])
                if op.get("stop_pending"):
                    # a stop request left over from an earlier run is still pending on the state
                    state.stop_training = True
                dcfg = {"N": 3, "nv": c["nv"], "dseed": op["sub"], "form": "tensor"}
                din, _, _ = build_data(dcfg, with_bases=False)
                tc = {"epochs": 1, "starting_epoch": 1, "pos_bs": 2, "neg_bs": None, "k": 1, "lr": 0.1}
                info = run_fit(run, state, tc, din, None, n_wit=1)
                items, _ = protocol.extract(run, 1)
                if not isinstance(info["raised"], ValueError):
                    run.violate("20-nobases", f"training a {c['type']} state without bases was not refused with ValueError (got {type(info['raised']).__name__}; stop pending: {bool(op.get('stop_pending'))})", type=c["type"], stop_pending=bool(op.get("stop_pending")))
                if info["preempt"].event_idx >= 0:
                    run.violate("20-nobases", "training without bases emitted protocol events before being refused", type=c["type"])
                if not snapshots_equal(before, params_snapshot(state)):
                    run.violate("20-nobases", "training without bases changed parameters", type=c["type"])
                state.stop_training = False
                trace.append(("N", bool(op.get("stop_pending"))))
            elif kind == "train":
                did_history = True
                phase_is_copy["v"] = False
                rng.stream(op["sub"], mode="honest")
                dcfg = {"N": op["N"], "nv": c["nv"], "dseed": op["dseed"], "form": "tensor", "basis_mode": "mixed"}
                din, _, bases = build_data(dcfg, with_bases=c["type"] != "positive")
                opt = op["opt"]
                ocls = {"sgd": torch.optim.SGD, "sgd_momentum": torch.optim.SGD, "sgd_wd": torch.optim.SGD, "adam": torch.optim.Adam, "adadelta": torch.optim.Adadelta}[opt]
                oargs = {"sgd_momentum": {"momentum": 0.9}, "sgd_wd": {"weight_decay": 0.1}}.get(opt)
                tc = {"epochs": op["epochs"], "starting_epoch": 1, "pos_bs": op["bs"], "neg_bs": None, "k": 1, "lr": 1.0 if opt == "adadelta" else 0.1}
                bad = {"seen": False}

                def handler(kind_, args, idx, nn_state, seq):
                    if c["type"] == "density" and not bad["seen"] and aux_expect["v"] is not None:
                        if finite(nn_state) and not torch.equal(nn_state.rbm_ph.aux_bias.data, aux_expect["v"]):
                            bad["seen"] = True
                            run.violate("20-auxbias", f"phase network's auxiliary bias became non-zero during training (first seen at {kind_}{tuple(args)}, optimizer {opt})", opt=opt, type=c["type"])
                    if c["route"] == "module" and nn_state.rbm_am is not module and not bad.get("mod"):
                        bad["mod"] = True
                        run.violate("20-module", "amplitude network is no longer the user's RBM during training", type=c["type"])

                info = run_fit(run, state, tc, din, bases, n_wit=1, handler=handler, optimizer=ocls, optimizer_args=oargs, snapshot=False)
                if info["raised"] is not None:
                    run.lib_exception(info["raised"], "fit", opt=opt, type=c["type"])
                run.sim["epochs"] += op["epochs"]
                contract_tag = "later"
                trace.append(("T", opt))
            rng.check_global()
    run.trace = trace
    run.nontrivial = did_history
    return run.result()


def shrink(plan):
    out = []
    c = plan["config"]
    for key in ("nv", "nh", "na"):
        if c.get(key) and c[key] > 1:
            q = copy.deepcopy(plan)
            q["config"][key] = 1
            out.append(q)
    if c.get("module_randomised"):
        q = copy.deepcopy(plan)
        q["config"]["module_randomised"] = False
        out.append(q)
    for j, op in enumerate(plan["ops"]):
        if op["op"] == "train":
            if op["opt"] != "sgd":
                q = copy.deepcopy(plan)
                q["ops"][j]["opt"] = "sgd"
                out.append(q)
            if op["epochs"] > 1:
                q = copy.deepcopy(plan)
                q["ops"][j]["epochs"] = 1
                out.append(q)
            if op["N"] > 2:
                q = copy.deepcopy(plan)
                q["ops"][j]["N"] = 2
                out.append(q)
    return out
