"""C05 - Gibbs sampling targets exactly the distribution the model reports.

Simulated: every Bernoulli draw of every chain (the sampler is a randomised
state machine whose nondeterminism is exactly that stream, owned by the RNG
seam), histories of sampling operations with chains continued across calls,
and the caller's buffers.  Oracle: per-draw refinement against the enumerated
joint Boltzmann table, kernel invariance / detailed balance with the reported
distribution, result/buffer rules, and a Hoeffding-bounded law check."""
import math

from qsim import plan as P
from qsim.core import Run

PROP = "C05"
QUICK_RUNS = 6000
THOROUGH_WAVE = 8000
RULE = (
    "one case = one model (type, n_v<=4, n_h<=4, n_a<=3, parameter scale up to 30, all biases non-zero; 6 % metastable two-well models) and a "
    "history of 3-12 sampling operations (fresh start / given 1-D or 2-D start of any dtype / chain continued "
    "from an earlier result; overwrite on/off; via state.sample or rbm.gibbs_steps; 1-D/2-D/3-D starts, the per-batch gradient method called directly; k in 0..16 and, rarely, 33..320; re-parametrisation "
    "in between) under an honest or rare-outcome-forcing Bernoulli stream; non-trivial = at least one operation "
    "with k>=1 whose every draw was refined against the enumerated table; distinct = distinct abstract trace "
    "(type, sizes, op kinds, k, start kinds, overwrite flags, draw-structure verdicts)"
)
COMPONENTS = {
    "real": ["qucumber.rbm.BinaryRBM/PurificationRBM (conditionals, gibbs_steps)", "NeuralStateBase.sample/probability/normalization", "torch numerics"],
    "stub": ["torch.bernoulli (+Bernoulli.sample via it), randn, randperm, randint served from the plan's PCG64 stream"],
}
ASSUMPTIONS = [
    "rule 1 tolerance is 1e-7 relative: F.softplus' linear branch above 20 makes the library's effective energy inexact at the 2e-9 level",
    "exact per-draw refinement needs enumerable latent layers (n_v<=4, n_h<=4, n_a<=3)",
    "law check: Hoeffding + union bound with delta=1e-12 per operation",
]

KS = [0, 1, 1, 1, 2, 2, 2, 3, 3, 5, 8, 11, 16]
KS_LONG = [33, 65, 100, 320]  # the tutorials sample with k = 100
BIGK = 10 ** 9


def generate(seed, tier):
    r = P.rng_for(seed)
    scfg = P.gen_state_cfg(r, type_weights=(1, 1, 2), max_nv=4, max_nh=4, max_na=3, scales=(0.1, 1.0, 1.0, 5.0, 30.0), custom_p=0.0)
    nv = scfg["nv"]
    if r.random() < 0.06:
        scfg["wells"] = r.choice([8.0, 10.0, 12.0])  # metastable two-well parameters (world.build_state)
    p_long = 0.3 if scfg.get("wells") else 0.03
    nops = r.randint(3, 12)
    ops = []
    for j in range(nops):
        m = r.random()
        if m < 0.08 and j > 0:
            ops.append({"op": "reparam", "pseed": P.s64(r), "scale": r.choice([0.1, 1.0, 5.0, 30.0])})
            continue
        if m < 0.11:
            # the public per-batch gradient method starts its negative-phase chains from the caller's rows
            ops.append({"op": "cbg", "k": r.choice([1, 2, 3]), "rows": r.randint(1, 5), "sub": P.s64(r), "dseed": P.s64(r)})
            continue
        k = r.choice(KS) if r.random() > p_long else r.choice(KS_LONG)
        prev = [i for i, o in enumerate(ops) if o["op"] == "sample"]
        sk = r.random()
        if sk < 0.3 or (sk < 0.55 and not prev):
            start = {"kind": "fresh", "n": r.choice([1, 2, 3, 4, 5, 6, 6, 9, 17, 33])}
            via = "state"
        elif sk < 0.55:
            start = {"kind": "prev", "ref": r.choice(prev)}
            via = r.choice(["state", "rbm"])
        else:
            dim = r.choice([1, 2, 2, 2, 2, 3])  # 3: a contiguous block of shape (R, C, n_v)
            nrows = 1 if dim == 1 else (r.choice([2, 4, 6, 12]) if dim == 3 else r.choice([1, 2, 3, 4, 5, 6, 6, 9, 17]))
            rows = [[r.randint(0, 1) for _ in range(nv)] for _ in range(nrows)]
            if nrows >= 2 and r.random() < 0.4:
                rows[-1] = list(rows[0])  # repeated rows
            start = {"kind": "given", "rows": rows, "dim": dim, "dtype": r.choice(["double", "double", "double", "float", "long"]), "layout": r.choice(["contig", "contig", "transposed", "colslice"]) if dim == 2 else "contig"}
            via = r.choice(["state", "state", "rbm"])
        ops.append(
            {
                "op": "sample",
                "via": via,
                "k": k,
                "start": start,
                "overwrite": r.random() < 0.5,
                "sub": P.s64(r),
                "mode": r.choice(["honest", "honest", "rare"]),
                "law": r.random() < (0.25 if tier == "thorough" else 0.03),
                "positional": r.random() < 0.3,
                "ow_type": r.choice(["bool", "bool", "bool", "np_bool", "int"]),
            }
        )
    if r.random() < 0.01:
        # a very large batch of chains from one start state (law judged on its first and last 50 000 chains)
        ops.append({"op": "sample", "via": r.choice(["state", "rbm"]), "k": r.choice([1, 2]), "start": {"kind": "huge", "n": r.choice([70001, (1 << 20) + 60000]), "row": [r.randint(0, 1) for _ in range(nv)]}, "overwrite": r.random() < 0.5, "sub": P.s64(r), "mode": "honest", "law": False})
    config = {"state": scfg}
    if r.random() < 0.35:
        config["twin_pseed"] = P.s64(r)
        config["twin_scale"] = r.choice([0.1, 1.0, 5.0])
        for op in ops:
            op["m"] = r.randrange(2)
    return {"property": PROP, "run_seed": seed, "sub": P.s64(r), "config": config, "ops": ops}


def _kernel_from_public_methods(state, table):
    """K[v,v'] assembled from the library's public conditional methods over
    all latent configurations."""
    import numpy as np
    import torch

    rbm = state.rbm_am
    space = torch.tensor(table.Vb, dtype=torch.double)
    ph = rbm.prob_h_given_v(space).numpy()  # (V,nh)
    Hb, Ab = table.Hb, table.Ab
    # P(h|v) for all h: (V,H)
    Ph = np.prod(np.where(Hb[None, :, :] == 1, ph[:, None, :], 1 - ph[:, None, :]), axis=2)
    if table.na:
        pa = rbm.prob_a_given_v(space).numpy()
        Pa = np.prod(np.where(Ab[None, :, :] == 1, pa[:, None, :], 1 - pa[:, None, :]), axis=2)
    else:
        Pa = np.ones((len(table.Vb), 1))
    K = np.zeros((len(table.Vb), len(table.Vb)))
    Vb = table.Vb
    for hi in range(len(Hb)):
        h = torch.tensor(Hb[hi : hi + 1], dtype=torch.double)
        for ai in range(len(Ab)):
            if table.na:
                a = torch.tensor(Ab[ai : ai + 1], dtype=torch.double)
                pv = rbm.prob_v_given_ha(h, a).numpy().reshape(-1)
            else:
                pv = rbm.prob_v_given_h(h).numpy().reshape(-1)
            Pv = np.prod(np.where(Vb == 1, pv[None, :], 1 - pv[None, :]), axis=1)  # (V',)
            K += (Ph[:, hi] * Pa[:, ai])[:, None] * Pv[None, :]
    return K


def execute(plan):
    import numpy as np
    import torch

    from qsim.models.boltzmann import GibbsRefiner, Table, raw_params, row_index
    from qsim.seams.rng import RngSeam
    from qsim.world import build_state, randomise

    run = Run(plan)
    scfg = plan["config"]["state"]
    rng = RngSeam(run)
    results = {}  # op index -> tensor returned
    trace = [scfg["type"], scfg["nv"], scfg["nh"], scfg.get("na", 0), plan["config"].get("twin_pseed") is not None]
    refined_ops = 0

    with rng:
        rng.stream(plan["sub"])
        # two models of the same shape may be alive in one run: nothing learnt about one may leak into the other
        states = [build_state(scfg)]
        if plan["config"].get("twin_pseed") is not None:
            states.append(build_state(dict(scfg, pseed=plan["config"]["twin_pseed"], scale=plan["config"].get("twin_scale", scfg["scale"]))))
        tables = [None] * len(states)
        state = states[0]
        nv = state.num_visible
        rng.arm_global(plan["sub"])
        table = None

        def static_rules(mi):
            """rules 1 and 3 for the current parameters of model mi"""
            state = states[mi]
            table = tables[mi] = Table(raw_params(state.rbm_am))
            space = state.generate_hilbert_space()
            if not np.array_equal(space.numpy(), table.Vb):
                run.inconclusive["space_convention"] += 1
                return
            try:
                Z = state.normalization(space)
                rep = (state.probability(space) / Z).detach().numpy().astype(np.float64)
            except Exception as exc:  # noqa: BLE001
                run.lib_exception(exc, "probability/normalization")
                return
            pi = table.visible_marginal()
            dev = np.abs(rep - pi)
            lim = 1e-7 * np.maximum(rep, pi) + 1e-290
            if not np.all(dev <= lim):
                i = int(np.argmax(dev - lim))
                run.violate("1", f"reported probability of basis state {i} is {rep[i]!r}, enumerated Boltzmann marginal is {pi[i]!r}", scale=scfg["scale"])
            try:
                K = _kernel_from_public_methods(state, table)
            except Exception as exc:  # noqa: BLE001
                run.lib_exception(exc, "conditional probability methods")
                return
            flow = rep[:, None] * K
            db = float(np.max(np.abs(flow - flow.T)))
            inv = float(np.max(np.abs(rep @ K - rep)))
            rows = float(np.max(np.abs(K.sum(1) - 1)))
            if db > 1e-7 or inv > 1e-7 or rows > 1e-9:
                run.violate("3", f"kernel assembled from the public conditionals: detailed-balance defect {db:.2e}, invariance defect {inv:.2e}, row-sum defect {rows:.2e}", scale=scfg["scale"])
            KT = table.kernel()
            dk = float(np.max(np.abs(K - KT)))
            if dk > 1e-9:
                run.violate("3", f"kernel from the public conditionals differs from the enumerated block-Gibbs kernel by {dk:.2e}", scale=scfg["scale"])

        for mi_ in range(len(states)):
            static_rules(mi_)

        for j, op in enumerate(plan["ops"]):
            mi = op.get("m", 0) % len(states)
            state = states[mi]
            if op["op"] == "reparam":
                randomise(state, op["pseed"], op["scale"])
                run.log.add("op", "reparam", j, mi)
                trace.append(("R", mi))
                static_rules(mi)
                continue
            table = tables[mi]
            if op["op"] == "cbg":
                g_ = np.random.Generator(np.random.PCG64(op["dseed"]))
                smp = torch.tensor(g_.integers(0, 2, size=(op["rows"], nv)).astype(np.float64), dtype=torch.double)
                neg = torch.tensor(g_.integers(0, 2, size=(op["rows"], nv)).astype(np.float64), dtype=torch.double)
                smp0, neg0 = smp.clone(), neg.clone()
                rng.stream(op["sub"])
                try:
                    if scfg["type"] == "positive":
                        state.compute_batch_gradients(op["k"], smp, neg)
                    else:
                        state.compute_batch_gradients(op["k"], smp, neg, np.full((op["rows"], nv), "Z"))
                except Exception as exc:  # noqa: BLE001
                    run.lib_exception(exc, "compute_batch_gradients")
                if not torch.equal(neg, neg0) or not torch.equal(smp, smp0):
                    run.violate("4", f"op {j}: compute_batch_gradients(k={op['k']}) modified the caller's batches (the start states of its negative-phase chains were overwritten although no overwriting was requested)", k=op["k"], start="cbg")
                rng.check_global()
                trace.append(("cbg", op["k"], op["rows"]))
                continue
            k = op["k"]
            st = op["start"]
            kind = st["kind"]
            if kind == "huge":
                row = (st["row"] + [0] * nv)[:nv]
                big = torch.tensor([row], dtype=torch.double).repeat(st["n"], 1)
                rng.quiet = True
                rng.stream(op["sub"], mode="honest")
                try:
                    out = state.rbm_am.gibbs_steps(k, big, overwrite=op["overwrite"]) if op["via"] == "rbm" else state.sample(k, initial_state=big, overwrite=op["overwrite"])
                    if tuple(out.shape) != (st["n"], nv):
                        run.violate("4", f"op {j}: result shape {tuple(out.shape)} for {st['n']} chains", k=k, start="huge")
                    else:
                        Kk = np.linalg.matrix_power(table.kernel(), k)
                        law = Kk[int(row_index(np.array([row], dtype=np.float64))[0])]
                        M = 50000
                        eps = math.sqrt(math.log(2 * 2 ** nv / 1e-12) / (2 * M))
                        for name, sl in (("first", out[:M]), ("last", out[-M:])):
                            emp = np.bincount(row_index(sl.numpy()), minlength=2 ** nv) / float(M)
                            dev = float(np.max(np.abs(emp - law)))
                            if dev > eps:
                                run.violate("5", f"op {j}: {name} {M} of {st['n']} chains: empirical {k}-step law deviates from kernel^k by {dev:.4f} > {eps:.4f}", k=k, n=st["n"], part=name)
                        if op["overwrite"] and not torch.equal(big, out):
                            run.violate("4", f"op {j}: overwrite=True but the caller's {st['n']}-chain start state does not hold the result", k=k, start="huge")
                        run.probes["huge_batches"] += 1
                        run.sim["gibbs_steps"] += k * st["n"]
                except Exception as exc:  # noqa: BLE001
                    run.lib_exception(exc, f"sample op {j} on {st['n']} chains")
                finally:
                    rng.quiet = False
                rng.check_global()
                trace.append((op["via"], k, "huge", st["n"]))
                continue
            if kind == "prev" and st["ref"] not in results:
                kind = "fresh"
                st = {"kind": "fresh", "n": 2}
            via = op["via"] if kind != "fresh" else "state"
            # ---- build the caller's start tensor --------------------------
            start_t = None
            if kind == "given":
                dt = {"double": torch.double, "float": torch.float32, "long": torch.long}[st["dtype"]]
                rows = st["rows"]
                rows = [row[:nv] + [0] * (nv - len(row)) for row in rows]
                start_t = torch.tensor(rows[0] if st["dim"] == 1 else rows, dtype=dt)
                if st["dim"] == 3:
                    start_t = start_t.reshape(2, len(rows) // 2, nv)
                if st["dim"] == 2 and st.get("layout") == "transposed":
                    start_t = start_t.t().contiguous().t()  # same values, column-major memory
                elif st["dim"] == 2 and st.get("layout") == "colslice":
                    wide = torch.zeros(len(rows), nv + 3, dtype=dt)
                    wide[:, 1 : 1 + nv] = start_t
                    start_t = wide[:, 1 : 1 + nv]  # a strided view into a wider buffer of the caller
            elif kind == "prev":
                start_t = results[st["ref"]]
            start_copy = None if start_t is None else start_t.clone()
            # ---- arm the reference ------------------------------------------
            ref = GibbsRefiner(table, use_table=True)
            hist = []  # visible state after each completed step
            fresh = {"seen": False, "ok": True, "msg": ""}
            other = {"n": 0}

            def listener(kindr, arrays, ref=ref, hist=hist, fresh=fresh, other=other, kind=kind, st=st):
                if kindr in ("bern", "other:Tensor.bernoulli", "other:Tensor.bernoulli_"):
                    pa, outcome = arrays
                    if ref.v is None:
                        # expecting the fresh-start draw
                        fresh["seen"] = True
                        if pa.shape != (st["n"], nv) or not np.all(pa == 0.5):
                            fresh["ok"] = False
                            fresh["msg"] = f"fresh start requested as Bernoulli with shape {pa.shape}, p in [{pa.min()},{pa.max()}]"
                        ref.reset(outcome.reshape(-1, nv) if outcome.size % nv == 0 else np.zeros((1, nv)), BIGK)
                        hist.append(ref.v.copy())
                        return
                    before = ref.step
                    ref.feed(pa, outcome)
                    if ref.step > before:
                        hist.append(ref.v.copy())
                elif kindr == "randint" and ref.v is None:
                    (arr,) = arrays
                    fresh["seen"] = True
                    if arr.shape == (st["n"], nv) and arr.min() >= 0 and arr.max() <= 1:
                        ref.reset(arr.astype(np.float64), BIGK)
                        hist.append(ref.v.copy())
                        run.probes["fresh_start_via_randint"] += 1
                    else:
                        other["n"] += 1
                else:
                    other["n"] += 1
                    ref.status = "structure"  # draws the seam cannot attribute: stop refining

            if start_t is not None:
                ref.reset(start_copy.to(torch.double).numpy().reshape(-1, nv), BIGK)
                hist.append(ref.v.copy())
            else:
                ref.reset(None, BIGK)  # track as many steps as are drawn; the op-level rule compares with k
            rng.listeners.append(listener)
            rng.stream(op["sub"], mode=op["mode"], rare=0.15)
            ow = op["overwrite"]
            if op.get("ow_type") == "np_bool":
                ow = np.bool_(ow)  # e.g. the result of np.any(...)
            elif op.get("ow_type") == "int":
                ow = int(ow)
            run.log.add("op", "sample", j, via, k, kind, op["overwrite"], mi)
            res = None
            try:
                if via == "rbm":
                    res = state.rbm_am.gibbs_steps(k, start_t, overwrite=ow)
                elif kind == "fresh":
                    res = state.sample(k, st["n"]) if op.get("positional") else state.sample(k, num_samples=st["n"])
                elif op.get("positional"):
                    res = state.sample(k, 7, start_t, ow)  # num_samples is ignored when a start state is given
                else:
                    res = state.sample(k, initial_state=start_t, overwrite=ow)
            except Exception as exc:  # noqa: BLE001
                run.lib_exception(exc, f"sample op {j}", k=k, start=kind)
            finally:
                rng.listeners.remove(listener)
            seamed = rng.check_global()
            run.sim["gibbs_steps"] += k
            run.sim["draw_calls"] += ref.ncalls
            verdict = "x"
            if res is not None:
                results[j] = res
                # ---- rule 4: result and buffers --------------------------------
                want_shape = (st["n"], nv) if kind == "fresh" else tuple(start_copy.shape)
                if tuple(res.shape) != want_shape:
                    run.violate("4", f"op {j}: result shape {tuple(res.shape)} expected {want_shape}", k=k, start=kind)
                if res.dtype != torch.double:
                    run.violate("4", f"op {j}: result dtype {res.dtype}, expected double", k=k, start=kind)
                rn = res.detach().numpy().astype(np.float64)
                if not np.all((rn == 0) | (rn == 1)):
                    run.violate("4", f"op {j}: result has entries outside {{0,1}}", k=k, start=kind)
                if start_t is not None:
                    if not op["overwrite"]:
                        if not torch.equal(start_t, start_copy):
                            run.violate("4", f"op {j}: caller's start state was modified although overwrite=False", k=k, start=kind, dtype=str(start_t.dtype))
                    elif start_t.dtype == torch.double:
                        if not torch.equal(start_t, res):
                            run.violate("4", f"op {j}: overwrite=True but the caller's start state does not hold the result", k=k, start=kind)
                # ---- rule 2: per-draw refinement ---------------------------------
                structure_ok = ref.status != "structure" and other["n"] == 0 and seamed and (kind != "fresh" or fresh["seen"] or k == 0)
                if kind == "fresh" and not fresh["seen"] and k == 0:
                    # no start draw seen at all with k=0: cannot tell where the state came from
                    structure_ok = False
                if kind == "fresh" and fresh["seen"] and not fresh["ok"]:
                    run.violate("4", f"op {j}: {fresh['msg']}", k=k, start=kind)
                if ref.status == "mismatch" and other["n"] == 0 and seamed:
                    run.violate("2", f"op {j} ({scfg['type']}, k={k}): {ref.msg}", k=k, start=kind, scale=scfg["scale"])
                    verdict = "m"
                elif structure_ok:
                    if ref.pending is not None:
                        run.violate("2", f"op {j}: chain ended in the middle of step {ref.step} (latent layers drawn, visible layer not)", k=k, start=kind)
                    if len(hist) - 1 < k:
                        run.violate("2", f"op {j}: only {len(hist) - 1} Gibbs steps were drawn, k={k} requested", k=k, start=kind)
                        verdict = "c"
                    elif hist and rn.size == hist[k].size and not np.array_equal(rn.reshape(hist[k].shape), hist[k]):
                        others = [i for i, hv in enumerate(hist) if np.array_equal(rn.reshape(hist[k].shape), hv)]
                        run.violate(
                            "2",
                            f"op {j}: returned state is not the visible state after k={k} steps"
                            + (f" (it is the state after {others[0]} steps)" if others else " (it matches no state of the chain)"),
                            k=k,
                            start=kind,
                        )
                        verdict = "c"
                    else:
                        verdict = "ok"
                        if len(hist) - 1 > k:
                            run.probes["extra_unused_draws"] += 1
                        if k >= 1:
                            refined_ops += 1
                        if ref.saturated:
                            run.probes["saturated_probability"] += 1
                else:
                    run.inconclusive["rule2_structure"] += 1
                    verdict = "s"
                # ---- rule 5: law check (thorough / fallback) ----------------------
                if (op.get("law") or verdict == "s" or k > 16) and k >= 0 and res is not None:
                    M = 20000 if k <= 16 else 6000
                    if kind == "fresh":
                        s_rows = np.zeros((1, nv))
                    else:
                        s_rows = start_copy.to(torch.double).numpy().reshape(-1, nv)[:1]
                    big = torch.tensor(np.repeat(s_rows, M, axis=0), dtype=torch.double)
                    rng.quiet = True
                    rng.stream(op["sub"] ^ 0x5DEECE66D, mode="honest")
                    try:
                        out = state.sample(k, initial_state=big, overwrite=False)
                        idx = row_index(out.numpy())
                        emp = np.bincount(idx, minlength=2 ** nv) / float(M)
                        Kk = np.linalg.matrix_power(table.kernel(), k)
                        law = Kk[int(row_index(s_rows)[0])]
                        eps = math.sqrt(math.log(2 * 2 ** nv / 1e-12) / (2 * M))
                        dev = float(np.max(np.abs(emp - law)))
                        run.probes["law_checks"] += 1
                        run.sim["gibbs_steps"] += k * M
                        if dev > eps:
                            run.violate("5", f"op {j}: empirical {k}-step law of {M} chains deviates from kernel^k by {dev:.4f} > {eps:.4f}", k=k, scale=scfg["scale"])
                    except Exception as exc:  # noqa: BLE001
                        run.lib_exception(exc, f"law check op {j}")
                    finally:
                        rng.quiet = False
                    rng.check_global()
            trace.append((via, k, kind if kind != "given" else f"given{st['dim']}{st['dtype'][0]}", int(op["overwrite"]), op["mode"][0], verdict))
    run.trace = trace
    run.nontrivial = refined_ops >= 1
    return run.result()


def shrink(plan):
    import copy

    out = []
    c = plan["config"]["state"]
    for key, lo in (("nv", 1), ("nh", 1), ("na", 1)):
        if c.get(key, lo) > lo:
            q = copy.deepcopy(plan)
            q["config"]["state"][key] = c[key] - 1
            out.append(q)
    if c["type"] != "positive":
        q = copy.deepcopy(plan)
        q["config"]["state"]["type"] = "positive"
        q["config"]["state"].pop("na", None)
        out.append(q)
    if c["scale"] != 1.0:
        q = copy.deepcopy(plan)
        q["config"]["state"]["scale"] = 1.0
        out.append(q)
    if c.get("wells"):
        q = copy.deepcopy(plan)
        q["config"]["state"].pop("wells")
        out.append(q)
    if plan["config"].get("twin_pseed") is not None:
        q = copy.deepcopy(plan)
        q["config"].pop("twin_pseed")
        for op in q["ops"]:
            op.pop("m", None)
        out.append(q)
    for j, op in enumerate(plan["ops"]):
        if op["op"] != "sample":
            continue
        if op["k"] > 1:
            q = copy.deepcopy(plan)
            q["ops"][j]["k"] = 1
            out.append(q)
        if op["mode"] != "honest":
            q = copy.deepcopy(plan)
            q["ops"][j]["mode"] = "honest"
            out.append(q)
        if op["start"]["kind"] == "given" and op["start"].get("layout", "contig") != "contig":
            q = copy.deepcopy(plan)
            q["ops"][j]["start"]["layout"] = "contig"
            out.append(q)
        if op["start"]["kind"] == "given" and len(op["start"]["rows"]) > 1 and op["start"]["dim"] == 2:
            q = copy.deepcopy(plan)
            q["ops"][j]["start"]["rows"] = op["start"]["rows"][:1]
            out.append(q)
        if op["start"]["kind"] == "fresh" and op["start"]["n"] > 1:
            q = copy.deepcopy(plan)
            q["ops"][j]["start"]["n"] = 1
            out.append(q)
    return out
