"""C17 - periodic callbacks fire on schedule and their records match what
happened.  Simulated: the epoch clock driving several periodic tasks with
different periods, their files (CSV logs, checkpoints) on a simulated disk,
stop requests, crash and restart.  Oracle: an independent witness record."""
import copy
import csv
import io
from math import ceil

from qsim import plan as P
from qsim.core import Run, SimCrash, close

PROP = "C17"
QUICK_RUNS = 4800
RULE = (
    "one case = one or two consecutive training runs (second run continues with starting_epoch or after clear_history) with "
    "1-5 periodic callbacks (MetricEvaluator with pure + call-recording metrics, ObservableEvaluator with instrumented "
    "observables, Logger with capturing logger_fn, ModelSaver with callable/dict/absent metadata, metadata_only, "
    "save_initial on/off; periods 1..5; CSV logs and checkpoints on a simulated disk) plus a witness callback placed last; "
    "optional stop request; in the fault stratum a crash between source lines of fit, a crash or ENOSPC/EIO inside the k-th "
    "disk write; non-trivial = at least two periodic actions happened or a fault fired; distinct = distinct abstract trace "
    "(state type, callback kinds/periods/order, epoch ranges, action epochs, fault kind and site)"
)
COMPONENTS = {
    "real": ["MetricEvaluator, ObservableEvaluator, ObservableStatistics, Logger, ModelSaver", "NeuralStateBase.save / autoload, torch serialiser", "System.statistics", "fit loop"],
    "stub": ["filesystem (SimDisk: CSV logs, checkpoint folder via Path/open/torch.save seams)", "torch RNG entry points (seeded stream)", "stdout"],
}
ASSUMPTIONS = [
    "a disk error inside fit may propagate (the property promises no recovery); such a run keeps only the durability rule",
    "crash = process death; completed writes survive; CSV text still buffered in the dead process is lost",
    "the witness is the last callback in the list; parameters do not change during an epoch-end dispatch (checked under C12)",
]


def gen_callbacks(r, typ):
    n = r.randint(1, 5)
    out = []
    kinds = ["metric", "metric", "observable", "logger", "saver", "saver"]
    for i in range(n):
        k = r.choice(kinds)
        period = r.choice([1, 1, 2, 2, 3, 4, 5])
        if k == "metric":
            out.append({"kind": "metric", "period": period, "log": r.random() < 0.6, "two": r.random() < 0.5, "verbose": r.random() < 0.2, "names": r.choice([["alpha", "beta"], ["alpha", "beta"], ["period", "log"], ["names", "metrics"], ["m 1", "m-2"], ["overlap", "overlaps"], ["losss", "loss"], ["_wnorm", "__x"]])})
        elif k == "observable":
            out.append({"kind": "observable", "period": period, "log": r.random() < 0.6, "obs": r.choice([["Z"], ["user"], ["Z", "user"], ["X"], ["_user"]]), "num_samples": r.choice([2, 4, 5]), "num_chains": r.choice([0, 2]), "verbose": r.random() < 0.2})
        elif k == "logger":
            out.append({"kind": "logger", "period": period, "custom_msg": r.random() < 0.5, "blank_msgs": r.random() < 0.4})
        else:
            out.append(
                {
                    "kind": "saver",
                    "period": period,
                    "save_initial": r.random() < 0.6,
                    "metadata": r.choice(["callable", "dict", "dict", "live_dict", "none"]),
                    "metadata_only": r.random() < 0.2,
                    "file_name": r.choice(["ep{}.pt", "model_{}", "ck-{}-x.pt", "ck_{:03}.pt", "{:>5}-m.pt"]),
                    # folder names are plain strings: braces in them are just characters
                    "folder": r.choice(["ckpt", "ckpt", "ckpt", "lr_{0}_sweep", "run{}"]),
                }
            )
    return out


def generate(seed, tier):
    r = P.rng_for(seed)
    scfg = P.gen_state_cfg(r, type_weights=(2, 1, 1), max_nv=3, max_nh=2, max_na=2, scales=(0.1, 1.0), custom_p=0.2)
    dcfg = P.gen_data_cfg(r, scfg, max_N=4, forms=("tensor",), min_N=2)
    se = r.choice([1, 1, 1, 2, 4, 0])  # epoch numbering may start at 0
    span = r.randint(1, 8 if tier == "thorough" else 6)
    runs = [{"starting_epoch": se, "epochs": se + span - 1}]
    if r.random() < 0.4:
        m2 = r.random()
        if m2 < 0.4:
            runs.append({"starting_epoch": se + span, "epochs": se + span + r.randint(0, 4), "clear": r.random() < 0.3})
        elif m2 < 0.6:
            runs.append({"starting_epoch": 1, "epochs": r.randint(1, 5), "clear": True})
        elif m2 < 0.8:
            # the same epoch range again (same number of evaluations as the first run), with or without clear_history
            runs.append({"starting_epoch": se, "epochs": se + span - 1, "clear": r.random() < 0.6})
        elif m2 < 0.88:
            # a run that starts again at the epoch the first one ended with, records accumulate
            runs.append({"starting_epoch": se + span - 1, "epochs": se + span - 1 + r.randint(0, 3), "clear": False})
        else:
            # a shifted range of the same length after clear_history
            sh = r.choice([1, 2, 3, 4, 6])
            runs.append({"starting_epoch": se + sh, "epochs": se + sh + span - 1, "clear": True})
    cbs = gen_callbacks(r, scfg["type"])
    faults = []
    nb = ceil(dcfg["N"] / 2)
    total = 2 + span * (2 + 2 * nb)
    m = r.random()
    if m < 0.2:
        faults.append({"kind": "stop_cb", "event": r.randrange(0, total), "cb": 0})
    elif m < 0.32:
        faults.append({"kind": "crash_line", "addr": ["after", r.randrange(0, total), r.randrange(0, 8)]})
    elif m < 0.50:
        faults.append({"kind": r.choice(["crash_write", "crash_write", "enospc", "eio"]), "at": r.choice([0, 1, 2, 3, 5, 10, 30, 70, 90, r.randrange(0, 400)]), "frac": r.choice([0.0, 0.5, 1.0])})
    return {
        "property": PROP,
        "run_seed": seed,
        "sub": P.s64(r),
        "config": {"state": scfg, "data": dcfg, "runs": runs, "callbacks": cbs, "pos_bs": 2, "order_seed": P.s64(r)},
        "faults": faults,
    }


def execute(plan):
    import numpy as np
    import torch

    from qsim.models import protocol
    from qsim.seams.disk import SimDisk
    from qsim.seams.rng import RngSeam
    from qsim.train import run_fit
    from qsim.world import build_data, build_state, params_snapshot, state_class

    run = Run(plan)
    c = plan["config"]
    scfg = c["state"]
    rng = RngSeam(run)
    disk = SimDisk(run)
    from qucumber.callbacks import Logger, MetricEvaluator, ModelSaver, ObservableEvaluator
    from qucumber.observables import ObservableBase, SigmaX, SigmaZ

    cur = {"epoch": None, "run": 0}
    trace = [scfg["type"], [(cb["kind"], cb["period"]) for cb in c["callbacks"]], [(rr["starting_epoch"], rr["epochs"], bool(rr.get("clear"))) for rr in c["runs"]]]
    actions = 0

    def pure_metric_a(nn_state):
        return float(sum(p.data.sum() for p in nn_state.rbm_am.parameters()))

    def pure_metric_b(nn_state):
        return float(sum((p.data ** 2).sum() for net in nn_state.networks for p in getattr(nn_state, net).parameters()))

    class UserObs(ObservableBase):
        def __init__(self, rec):
            self.name = "UserObs"
            self.symbol = "U"
            self.rec = rec

        def apply(self, nn_state, samples):
            self.rec.append(cur["epoch"])
            return samples.sum(1) * 0.5 - 1.0

    with rng, disk:
        rng.stream(plan["sub"])
        state = build_state(scfg)
        data_in, _, bases = build_data(c["data"], with_bases=scfg["type"] != "positive")
        rng.arm_global(plan["sub"])

        # ---- build the periodic callbacks and their witness-side records -----------
        recs = []
        cbs = []
        live_dicts = []
        construct_failed = False
        for i, spec in enumerate(c["callbacks"]):
            rec = {"spec": spec, "calls": [], "values": [], "i": i}
            try:
                if spec["kind"] == "metric":
                    def m_a(nn_state, rec=rec, **kw):
                        rec["calls"].append((cur["run"], cur["epoch"], "a", dict(kw)))
                        return pure_metric_a(nn_state)

                    def m_b(nn_state, rec=rec, **kw):
                        rec["calls"].append((cur["run"], cur["epoch"], "b", dict(kw)))
                        return pure_metric_b(nn_state)

                    nm_a, nm_b = spec.get("names", ["alpha", "beta"])
                    rec["key_of"] = {nm_a: "alpha", nm_b: "beta"}
                    metrics = {nm_a: m_a}
                    if spec.get("two"):
                        metrics[nm_b] = m_b
                    rec["log"] = f"/logs/metric{i}.csv" if spec.get("log") else None
                    cb = MetricEvaluator(spec["period"], metrics, verbose=spec.get("verbose", False), log=rec["log"], offset=3)
                    rec["names"] = list(metrics.keys())
                elif spec["kind"] == "observable":
                    rec["applied"] = []
                    obs = []
                    for nm in spec["obs"]:
                        if nm in ("user", "_user"):
                            uo = UserObs(rec["applied"])
                            if nm == "_user":
                                uo.name = "_mag"
                            obs.append(uo)
                        else:
                            obs.append({"Z": SigmaZ, "X": SigmaX}[nm]())
                    rec["log"] = f"/logs/obs{i}.csv" if spec.get("log") else None
                    cb = ObservableEvaluator(spec["period"], obs, verbose=spec.get("verbose", False), log=rec["log"], num_samples=spec["num_samples"], num_chains=spec["num_chains"], burn_in=1, steps=1)
                    rec["names"] = [o.name for o in obs]
                    orig = cb.system.statistics

                    def stats(nn_state, rec=rec, orig=orig, **kw):
                        rec["calls"].append((cur["run"], cur["epoch"], "stats", dict(kw)))
                        out = orig(nn_state, **kw)
                        rec["values"].append((cur["run"], cur["epoch"], copy.deepcopy(out)))
                        return out

                    cb.system.statistics = stats
                elif spec["kind"] == "logger":
                    rec["msgs"] = []

                    def logger_fn(msg, rec=rec):
                        rec["msgs"].append((cur["run"], cur["epoch"], msg))

                    if spec.get("custom_msg"):
                        def msg_gen(nn_state, epoch, rec=rec, spec=spec, **kw):
                            rec["calls"].append((cur["run"], cur["epoch"], epoch, dict(kw)))
                            if spec.get("blank_msgs") and epoch % 2 == 0:
                                return ""  # "nothing to report" is still a message the user asked to have logged
                            return f"E{epoch}|{sorted(kw.items())}"

                        cb = Logger(spec["period"], logger_fn=logger_fn, msg_gen=msg_gen, tag="t1")
                    else:
                        cb = Logger(spec["period"], logger_fn=logger_fn, tag="t1")
                else:
                    rec["md_calls"] = []
                    if spec["metadata"] == "callable":
                        def md(nn_state, epoch, rec=rec):
                            rec["md_calls"].append((cur["run"], cur["epoch"], epoch))
                            return _callable_md(epoch)

                        meta = md
                    elif spec["metadata"] == "dict":
                        meta = {"note": "same-dict-every-period", "k": [1, 2, 3]}
                        rec["md_obj"] = meta
                        rec["md_copy"] = copy.deepcopy(meta)
                    elif spec["metadata"] == "live_dict":
                        # the user's dict, kept up to date by the user at every epoch start (see the witness handler)
                        meta = {"note": "live", "last_epoch": 0}
                        rec["live"] = meta
                        live_dicts.append(meta)
                    else:
                        meta = None
                    rec["folder"] = spec.get("folder", "ckpt") + str(i)
                    cb = ModelSaver(spec["period"], rec["folder"], spec["file_name"], save_initial=spec["save_initial"], metadata=meta, metadata_only=spec["metadata_only"])
            except SimCrash:
                construct_failed = True
                break
            except Exception as exc:  # noqa: BLE001
                run.lib_exception(exc, f"constructing {spec['kind']} callback")
                construct_failed = True
                break
            rec["cb"] = cb
            recs.append(rec)
            cbs.append(cb)
        if construct_failed:
            run.trace = trace + ["ctor-failed"]
            return run.result()
        order = list(range(len(cbs)))
        import random as _random

        _random.Random(c["order_seed"]).shuffle(order)
        cb_list = [cbs[i] for i in order]

        # witness-side truth
        ee_params = {}  # (run, epoch) -> snapshot
        ee_metric = {}  # (run, epoch) -> {"alpha":..,"beta":..}
        epochs_run = []  # (run, epoch) for which EE was dispatched
        ts_params = {}

        def handler(kind, args, idx, nn_state, seq):
            if kind == "ES":
                cur["epoch"] = args[0]
                for ld in live_dicts:
                    ld["last_epoch"] = args[0]
                    ld["tag"] = f"during-epoch-{args[0]}"
            elif kind == "TS":
                cur["epoch"] = 0
                ts_params[cur["run"]] = params_snapshot(nn_state)
            elif kind == "EE":
                key = (cur["run"], args[0])
                epochs_run.append(key)
                ee_params[key] = params_snapshot(nn_state)
                ee_metric[key] = {"alpha": pure_metric_a(nn_state), "beta": pure_metric_b(nn_state)}
                for rec_ in recs:
                    if rec_["spec"]["kind"] in ("metric", "observable"):
                        accessors(rec_, "epoch-end")


        def accessors(rec, when):
            """Everything the evaluator exposes must agree with the witness record so far.
            Called at every epoch end (the witness runs last), after every run and at the end."""
            if rec.get("acc_bad"):
                return
            nviol = len(run.violations)
            spec = rec["spec"]
            p = spec["period"]
            due = [k for k in epochs_run if k[1] % p == 0]
            detail = dict(kind=spec["kind"], period=p, type=scfg["type"], when=when)
            ev = rec["cb"]
            if spec["kind"] == "metric":
                # what the accessors must show: evaluations since the last clear
                first_kept = max([ri for (ri, i) in cleared_before if i == rec["i"]] or [0])
                kept = [k for k in due if k[0] >= first_kept]
                names = rec["names"]
                vals = [{n: ee_metric[k][rec["key_of"][n]] for n in names} for k in kept]
                pass
                try:
                    if len(ev) != len(kept):
                        run.violate("17-len", f"len(evaluator) = {len(ev)}, {len(kept)} evaluations happened", **detail)
                    if list(ev.epochs) != [k[1] for k in kept]:
                        run.violate("17-epochs", f"epochs accessor {list(ev.epochs)[:10]}, evaluations happened at {[k[1] for k in kept][:10]}", **detail)
                    if list(ev.names) != names:
                        run.violate("17-names", f"names accessor {ev.names}", **detail)
                    for n in names:
                        want = [v[n] for v in vals]
                        # attribute-style access is only meaningful for names that are not attributes of the evaluator itself
                        forms = [("getitem", list(ev[n]))]
                        if n.isidentifier() and n not in ("period", "log", "names", "metrics", "last", "epochs", "verbose", "past_values", "csv_fields", "metric_kwargs"):
                            forms.append(("getattr", list(getattr(ev, n))))
                        for acc, got in forms:
                            if got != want:
                                run.violate("17-values", f"{acc} '{n}' = {got[:6]}, witnessed {want[:6]}", accessor=acc, **detail)
                        for ix in range(-len(kept), len(kept)):
                            if ev.get_value(n, ix) != want[ix]:
                                run.violate("17-index", f"get_value('{n}', {ix}) = {ev.get_value(n, ix)!r}, witnessed {want[ix]!r}", **detail)
                                break
                        if kept and ev.get_value(n) != want[-1]:
                            run.violate("17-index", f"get_value('{n}') is not the most recent value", **detail)
                    if kept and ev.last != vals[-1]:
                        run.violate("17-last", f"last = {ev.last}, most recent evaluation {vals[-1]}", **detail)
                    if not kept and cleared_before and ev.last != {}:
                        run.violate("17-last", f"last = {ev.last} although no evaluation happened since clear_history", **detail)
                except Exception as exc:  # noqa: BLE001
                    run.lib_exception(exc, "metric evaluator accessors", **detail)
            elif spec["kind"] == "observable":
                first_kept = max([ri for (ri, i) in cleared_before if i == rec["i"]] or [0])
                keptv = [(r_, e, v) for (r_, e, v) in rec["values"] if r_ >= first_kept]
                names = rec["names"]
                pass
                try:
                    if len(ev) != len(keptv):
                        run.violate("17-len", f"len(evaluator) = {len(ev)}, {len(keptv)} evaluations happened", **detail)
                    if list(ev.epochs) != [e for (_, e, _) in keptv]:
                        run.violate("17-epochs", f"epochs accessor {list(ev.epochs)[:10]}", **detail)
                    if list(ev.names) != names:
                        run.violate("17-names", f"names accessor {ev.names}", **detail)
                    for n in names:
                        for acc in ("getitem", "getattr"):
                            st = ev[n] if acc == "getitem" else getattr(ev, n)
                            for stat, plural in (("mean", "means"), ("variance", "variances"), ("std_error", "std_errors"), ("num_samples", "num_samples")):
                                want = [v[n][stat] for (_, _, v) in keptv]
                                for form in {stat, plural}:
                                    got1 = list(getattr(st, form))
                                    got2 = list(st[form])
                                    if not _eq_list(got1, want) or not _eq_list(got2, want):
                                        run.violate("17-values", f"{n}.{form} = {got1[:5]}, witnessed {want[:5]}", accessor=acc, **detail)
                        for ix in range(-len(keptv), len(keptv)):
                            if not _eq_dict(ev.get_value(n, ix), keptv[ix][2][n]):
                                run.violate("17-index", f"get_value('{n}', {ix}) differs from the witnessed statistics", **detail)
                                break
                        if keptv and not _eq_dict(ev.get_value(n), keptv[-1][2][n]):
                            run.violate("17-index", f"get_value('{n}') is not the most recent statistics", **detail)
                    if keptv and not all(_eq_dict(ev.last.get(n, {}), keptv[-1][2][n]) for n in names):
                        run.violate("17-last", "last does not hold the most recent statistics", **detail)
                except Exception as exc:  # noqa: BLE001
                    run.lib_exception(exc, "observable evaluator accessors", **detail)
            if len(run.violations) > nviol:
                rec["acc_bad"] = True

        disk_fault = next((f for f in plan["faults"] if f["kind"] in ("crash_write", "enospc", "eio")), None)
        fit_faults = [f for f in plan["faults"] if f["kind"] in ("stop_cb", "crash_line")]
        crashed = False
        disk_error = None
        cleared_before = {}  # run index -> history was cleared before it
        base_counts = {}
        for ri, rr in enumerate(c["runs"]):
            cur["run"] = ri
            if ri > 0:
                state.stop_training = False
                if rr.get("clear"):
                    for rec in recs:
                        if rec["spec"]["kind"] in ("metric", "observable"):
                            rec["cb"].clear_history()
                            cleared_before[(ri, rec["i"])] = True
                            ev = rec["cb"]
                            if len(ev) != 0 or ev.last != {} or len(ev.epochs) != 0:
                                run.violate("17-clear", "clear_history left records behind", kind=rec["spec"]["kind"])
            tc = {"epochs": rr["epochs"], "starting_epoch": rr["starting_epoch"], "pos_bs": c["pos_bs"], "neg_bs": None, "k": 1, "lr": 0.1, "time": False}
            disk.arm(disk_fault if ri == 0 else None)
            rng.stream(plan["sub"] + ri + 1)
            info = run_fit(run, state, tc, data_in, bases, n_wit=1, faults=fit_faults if ri == 0 else (), cbs_before=cb_list, handler=handler, snapshot=False)
            disk.arm(None)
            if info["crashed"]:
                crashed = True
                break
            if info["raised"] is not None:
                if isinstance(info["raised"], (OSError, RuntimeError)) and any(k in run.faults for k in ("enospc", "eio")):
                    disk_error = info["raised"]
                    break
                run.lib_exception(info["raised"], "fit", type=scfg["type"])
                break
            for rec_ in recs:
                if rec_["spec"]["kind"] in ("metric", "observable"):
                    accessors(rec_, f"after run {ri}")
        rng.check_global()

        # =====================================================================
        # oracle
        # =====================================================================
        full = not crashed and disk_error is None and not any(v["rule"].startswith("EXC") for v in run.violations)
        for rec in recs:
            spec = rec["spec"]
            p = spec["period"]
            due = [k for k in epochs_run if k[1] % p == 0]
            detail = dict(kind=spec["kind"], period=p, type=scfg["type"])
            if spec["kind"] == "metric":
                ev = rec["cb"]
                # schedule from the call record of the metric functions
                calls_a = [(r_, e) for (r_, e, which, kw) in rec["calls"] if which == "a"]
                if full and calls_a != due:
                    run.violate("17-schedule", f"metric evaluated at {calls_a[:10]}, due at {due[:10]}", **detail)
                for (_, _, _, kw) in rec["calls"]:
                    if kw != {"offset": 3}:
                        run.violate("17-kwargs", f"metric called with keyword arguments {kw}, expected the evaluator's metric_kwargs", **detail)
                        break
                if not full:
                    continue
                names = rec["names"]
                actions += len(due)
                accessors(rec, "end")
                if rec["log"]:
                    _check_csv(run, disk, rec["log"], ["epoch"] + names, [dict(epoch=k[1], **{n: ee_metric[k][rec["key_of"][n]] for n in names}) for k in due], names, detail)
            elif spec["kind"] == "observable":
                ev = rec["cb"]
                calls = [(r_, e) for (r_, e, _, _) in rec["calls"]]
                if full and calls != due:
                    run.violate("17-schedule", f"observables evaluated at {calls[:10]}, due at {due[:10]}", **detail)
                want_kw = dict(num_samples=spec["num_samples"], num_chains=spec["num_chains"], burn_in=1, steps=1)
                for (_, _, _, kw) in rec["calls"]:
                    if kw != want_kw:
                        run.violate("17-kwargs", f"statistics called with {kw}, expected the evaluator's sampling_kwargs", **detail)
                        break
                if not full:
                    continue
                names = rec["names"]
                actions += len(due)
                accessors(rec, "end")
                if "applied" in rec and full:
                    # the instrumented observable is applied only while its evaluator is evaluating
                    bad = [e for e in rec["applied"] if e % p != 0]
                    if bad:
                        run.violate("17-schedule", f"user observable applied at epochs {bad[:5]} that are not multiples of {p}", **detail)
                if rec["log"]:
                    fields = ["epoch"]
                    for n in names:
                        fields += [n + "_mean", n + "_variance", n + "_std_error"]
                    rows = []
                    for (r_, e, v) in rec["values"]:
                        row = {"epoch": e}
                        for n in names:
                            for s_ in ("mean", "variance", "std_error"):
                                row[f"{n}_{s_}"] = v[n][s_]
                        rows.append(row)
                    _check_csv(run, disk, rec["log"], fields, rows, fields[1:], detail)
            elif spec["kind"] == "logger":
                got = [(r_, e) for (r_, e, _) in rec["msgs"]]
                if full and got != due:
                    run.violate("17-schedule", f"logger fired at {got[:10]}, due at {due[:10]}", **detail)
                actions += len(got)
                for (r_, e, msg) in rec["msgs"]:
                    want = f"E{e}|{[('tag', 't1')]}" if spec.get("custom_msg") else "Epoch " + str(e) + ": " + str({"tag": "t1"})
                    if spec.get("custom_msg") and spec.get("blank_msgs") and e % 2 == 0:
                        want = ""
                    if msg != want:
                        run.violate("17-logmsg", f"logged {msg!r}, expected {want!r}", **detail)
                        break
            else:
                folder = "/sim/cwd/" + rec["folder"]
                names_due = []
                for ri in sorted({k[0] for k in epochs_run} | set(ts_params.keys())):
                    if spec["save_initial"] and ri in ts_params:
                        names_due.append((ri, 0, "initial"))
                    for k in due:
                        if k[0] == ri:
                            names_due.append((ri, k[1], str(k[1])))
                opens = [pth for (pth, mode) in disk.opens if pth.startswith(folder + "/")]
                def fname(e_, lbl_):
                    return folder + "/" + spec["file_name"].format("initial" if lbl_ == "initial" else e_)

                want_paths = [fname(e_, lbl_) for (_, e_, lbl_) in names_due]
                if full and opens != want_paths:
                    run.violate("17-schedule", f"checkpoints written {[_short(x) for x in opens][:10]}, due {[_short(x) for x in want_paths][:10]}", **detail)
                if spec["metadata"] == "callable" and full:
                    got = [(r_, e) for (r_, _, e) in rec["md_calls"]]
                    want = [(r_, e) for (r_, e, _) in names_due]
                    if got != want:
                        run.violate("17-schedule", f"metadata callable called for {got[:10]}, due {want[:10]}", **detail)
                if spec["metadata"] == "dict" and rec["md_obj"] != rec["md_copy"]:
                    run.violate("17-metadata", f"model saver's metadata dict was modified: {sorted(rec['md_obj'].keys())}", **detail)
                actions += len(opens)
                # content of every completed checkpoint: last writer wins per path
                latest = {}
                for (ri, e, lbl) in names_due:
                    latest[fname(e, lbl)] = (ri, e, lbl)
                completed = set(disk.completed)
                for pth, (ri, e, lbl) in latest.items():
                    if pth not in completed:
                        continue
                    if not full:
                        # after a crash/disk error a later (interrupted) save may have torn this path
                        if disk.opens and [x for x, _ in disk.opens if x == pth][-1:] == [pth] and disk.completed.count(pth) < sum(1 for x, _ in disk.opens if x == pth):
                            continue
                    snap = ts_params.get(ri) if lbl == "initial" else ee_params.get((ri, e))
                    if snap is None:
                        continue
                    if spec["metadata"] == "live_dict":
                        want_md = {"note": "live", "last_epoch": 0} if lbl == "initial" and ri == 0 else {"note": "live", "last_epoch": e, "tag": f"during-epoch-{e}"}
                        if lbl == "initial" and ri > 0:
                            continue  # (content at the second train start is whatever the first run left: not modelled)
                    else:
                        want_md = _callable_md(e) if spec["metadata"] == "callable" else (rec.get("md_copy") if spec["metadata"] == "dict" else {})
                    try:
                        raw = torch.load(pth)
                    except Exception as exc:  # noqa: BLE001
                        run.lib_exception(exc, f"loading completed checkpoint {_short(pth)}", **detail)
                        continue
                    if spec["metadata_only"]:
                        if raw != want_md:
                            run.violate("17-ckpt", f"metadata-only file {_short(pth)} holds {raw}, expected {want_md}", **detail)
                        continue
                    for k_, v_ in want_md.items():
                        if k_ not in raw or raw[k_] != v_:
                            run.violate("17-ckpt", f"checkpoint {_short(pth)} lacks requested metadata {k_}={v_!r}", **detail)
                    reserved = set(state.networks) | ({"unitary_dict"} if scfg["type"] != "positive" else set())
                    stray = sorted(set(raw.keys()) - reserved - set(want_md.keys()))
                    if stray:
                        run.violate("17-ckpt", f"checkpoint {_short(pth)} carries metadata that was not requested for that epoch: {stray}", **detail)
                    try:
                        st2 = state_class(scfg["type"]).autoload(pth, gpu=False)
                    except Exception as exc:  # noqa: BLE001
                        run.lib_exception(exc, f"autoload of completed checkpoint {_short(pth)}", **detail)
                        continue
                    got = params_snapshot(st2)
                    same = got.keys() == snap.keys() and all(
                        got[n].keys() == snap[n].keys() and all(np.array_equal(got[n][q], snap[n][q]) for q in snap[n]) for n in snap
                    )
                    if not same:
                        run.violate(
                            "17-ckpt" if full else "17-durable",
                            f"checkpoint {_short(pth)} does not load back to the parameters at the end of epoch {lbl} (run {ri})",
                            label=lbl,
                            **detail,
                        )
                    run.probes["checkpoints_verified"] += 1
    if crashed:
        trace.append("crashed")
    if disk_error is not None:
        trace.append("diskerr")
    trace.append([k[1] for k in epochs_run])
    trace.append(sorted(run.fault_sites))
    run.trace = trace
    run.nontrivial = actions >= 2 or crashed or disk_error is not None
    run.sim["epochs"] += len(epochs_run)
    run.sim["periodic_actions"] += actions
    run.sim["disk_writes"] += disk.total_writes
    return run.result()


def _callable_md(epoch):
    """what the user's metadata callable returns: the key set depends on the epoch"""
    md = {"epoch": epoch, "note": "from-callable"}
    if epoch % 2 == 0:
        md["milestone"] = f"even-{epoch}"
    if epoch == 3:
        md["extra"] = [epoch, {"k": (1, 2)}]
    return md


def _short(p):
    return p.replace("/sim/cwd/", "")


def _eq(a, b):
    try:
        fa, fb = float(a), float(b)
    except (TypeError, ValueError):
        return a == b
    return fa == fb or (fa != fa and fb != fb)


def _eq_list(a, b):
    return len(a) == len(b) and all(_eq(x, y) for x, y in zip(a, b))


def _eq_dict(a, b):
    return isinstance(a, dict) and a.keys() == b.keys() and all(_eq(a[k], b[k]) for k in b)


def _check_csv(run, disk, path, fields, rows, value_fields, detail):
    """The CSV on the simulated disk parses to the header plus one row per
    evaluation with the witnessed values.  After a crash or disk error the rows
    present must be a prefix (the last one possibly missing)."""
    try:
        text = disk.text(path)
    except FileNotFoundError:
        run.violate("17-csv", f"log file {path} does not exist", **detail)
        return
    lines = list(csv.reader(io.StringIO(text)))
    interrupted = any(k in run.faults for k in ("crash_write", "crash_line", "enospc", "eio"))
    if not lines:
        if not interrupted:
            run.violate("17-csv", f"log file {path} is empty", **detail)
        return
    if lines[0] != fields:
        if not interrupted:
            run.violate("17-csv", f"log header {lines[0]}, expected {fields}", **detail)
        return
    body = lines[1:]
    if len(body) != len(rows):
        if not interrupted or len(body) > len(rows):
            run.violate("17-csv", f"log has {len(body)} rows, {len(rows)} evaluations happened", **detail)
            return
    for got, want in zip(body, rows):
        if len(got) != len(fields):
            if interrupted and got is body[-1]:
                continue
            run.violate("17-csv", f"log row {got} has {len(got)} fields, header has {len(fields)}", **detail)
            return
        gd = dict(zip(fields, got))
        if int(gd["epoch"]) != want["epoch"]:
            run.violate("17-csv", f"log row for epoch {gd['epoch']}, evaluation happened at epoch {want['epoch']}", **detail)
            return
        for f in value_fields:
            if not _eq(gd[f], want[f]):
                if interrupted and got is body[-1]:
                    continue
                run.violate("17-csv", f"log value {f}={gd[f]} at epoch {want['epoch']}, witnessed {want[f]!r}", **detail)
                return


def shrink(plan):
    out = []
    c = plan["config"]
    if len(c["callbacks"]) > 1:
        for i in range(len(c["callbacks"])):
            q = copy.deepcopy(plan)
            del q["config"]["callbacks"][i]
            out.append(q)
    if len(c["runs"]) > 1:
        q = copy.deepcopy(plan)
        q["config"]["runs"] = c["runs"][:1]
        out.append(q)
    r0 = c["runs"][0]
    if r0["starting_epoch"] > 1:
        d = r0["starting_epoch"] - 1
        q = copy.deepcopy(plan)
        q["config"]["runs"][0] = {"starting_epoch": 1, "epochs": r0["epochs"] - d}
        out.append(q)
    if r0["epochs"] > r0["starting_epoch"]:
        q = copy.deepcopy(plan)
        q["config"]["runs"][0]["epochs"] = r0["epochs"] - 1
        out.append(q)
    if c["state"]["type"] != "positive":
        q = copy.deepcopy(plan)
        q["config"]["state"]["type"] = "positive"
        q["config"]["state"].pop("na", None)
        q["config"]["state"].pop("custom_unitary", None)
        q["config"]["data"].pop("custom_unitary", None)
        out.append(q)
    for i, cb in enumerate(c["callbacks"]):
        if cb["period"] > 1:
            q = copy.deepcopy(plan)
            q["config"]["callbacks"][i]["period"] = 1
            out.append(q)
        for key, simple in (("log", False), ("two", False), ("verbose", False), ("custom_msg", False), ("metadata_only", False), ("save_initial", False), ("metadata", "none")):
            if key in cb and cb[key] != simple:
                q = copy.deepcopy(plan)
                q["config"]["callbacks"][i][key] = simple
                out.append(q)
    return out
