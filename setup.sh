#!/bin/sh
# Offline setup: nothing is built; verify the interpreter, torch, numpy and that
# qucumber is importable from /repo's working tree.
set -e
cd "$(dirname "$0")"
REPO="${QSIM_REPO:-/repo}"
PYTHONDONTWRITEBYTECODE=1 /venv/bin/python -B - "$REPO" <<'PY'
import sys
repo = sys.argv[1]
sys.path.insert(0, repo)
import torch, numpy
import qucumber
assert qucumber.__file__.startswith(repo), qucumber.__file__
print("setup ok: torch", torch.__version__, "numpy", numpy.__version__, "qucumber from", qucumber.__file__)
PY
mkdir -p evidence replays
